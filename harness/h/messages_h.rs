// harnesses over /repo/src/messages.rs  (C16 NodeInfo codec)
use crate::vh_common::okf;

fn v4(b: &[u8; 18]) -> SocketAddr {
    SocketAddr::V4(SocketAddrV4::new(Ipv4Addr::new(b[0], b[1], b[2], b[3]), u16::from_be_bytes([b[4], b[5]])))
}
fn v6(b: &[u8; 18]) -> SocketAddr {
    let mut ip = [0u8; 16];
    ip.copy_from_slice(&b[..16]);
    SocketAddr::V6(SocketAddrV6::new(Ipv6Addr::from(ip), u16::from_be_bytes([b[16], b[17]]), 0, 0))
}

/// builds an address list with n4 IPv4 and n6 IPv6 addresses, interleaved (v4 first where both remain), and the
/// normalised form the wire format can carry: at most seven per family, IPv6 before IPv4, relative order kept
fn addr_lists(raw: &[[u8; 18]; 18], n4: usize, n6: usize) -> (AddrList, AddrList) {
    let mut given: AddrList = SmallVec::new();
    let mut norm: AddrList = SmallVec::new();
    let mut i = 0;
    while i < 9 {
        if i < n4 {
            given.push(v4(&raw[i]));
        }
        if i < n6 {
            given.push(v6(&raw[9 + i]));
        }
        i += 1;
    }
    let mut i = 0;
    while i < 7 {
        if i < n6 {
            norm.push(v6(&raw[9 + i]));
        }
        i += 1;
    }
    let mut i = 0;
    while i < 7 {
        if i < n4 {
            norm.push(v4(&raw[i]));
        }
        i += 1;
    }
    (given, norm)
}

fn same_addrs(a: &AddrList, b: &AddrList) -> bool {
    if a.len() != b.len() {
        return false;
    }
    let mut i = 0;
    while i < 14 {
        if i < a.len() && a[i] != b[i] {
            return false;
        }
        i += 1;
    }
    true
}

fn okio<T>(r: Result<T, io::Error>) -> Option<T> {
    match r {
        Ok(v) => Some(v),
        Err(e) => {
            std::mem::forget(e);
            None
        }
    }
}

fn empty_info() -> NodeInfo {
    NodeInfo { node_id: [0; 16], peers: SmallVec::new(), claims: SmallVec::new(), peer_timeout: None, addrs: SmallVec::new() }
}

/// C16-H3a: the peers part. encode_peer_list_part -> decode_peer_list_part yields the normalised entry (at most seven
/// addresses per family, IPv6 first, node-id bit) and leaves the framing intact for the entry that follows.
fn peer_list_part_roundtrip(n4: usize, n6: usize) {
    let raw: [[u8; 18]; 18] = kani::any();
    let peer_id: NodeId = kani::any();
    let has_id: bool = kani::any();
    let sentinel: [u8; 18] = kani::any();
    let (paddrs, pnorm) = addr_lists(&raw, n4, n6);
    let mut info = empty_info();
    info.peers.push(PeerInfo { node_id: if has_id { Some(peer_id) } else { None }, addrs: paddrs });
    let mut s: AddrList = SmallVec::new();
    s.push(v4(&sentinel));
    info.peers.push(PeerInfo { node_id: None, addrs: s });
    let mut wire = [0u8; 400];
    let len = {
        let mut c = Cursor::new(&mut wire[..]);
        assert!(okio(info.encode_peer_list_part(&mut c)).is_some());
        c.position() as usize
    };
    let k4 = if n4 < 7 { n4 } else { 7 };
    let k6 = if n6 < 7 { n6 } else { 7 };
    // wire size: flags + optional id + addresses, then the sentinel (flags + one IPv4 address)
    assert!(len == 1 + (if has_id { 16 } else { 0 }) + 6 * k4 + 18 * k6 + 7);
    let mut rd = Cursor::new(&wire[..len]).take(len as u64);
    let back = okio(NodeInfo::decode_peer_list_part(&mut rd));
    assert!(back.is_some());
    let back = back.unwrap();
    assert!(back.len() == 2);
    assert!(back[0].node_id == info.peers[0].node_id);
    assert!(same_addrs(&back[0].addrs, &pnorm));
    assert!(back[1].node_id.is_none() && back[1].addrs.len() == 1 && back[1].addrs[0] == v4(&sentinel));
    std::mem::forget(back);
    std::mem::forget(info);
    witness!();
}
macro_rules! pl_inst {
    ($($name:ident = ($a:expr, $b:expr)),*) => {$(
        #[cfg_attr(kani, kani::proof, kani::unwind(20))]
        pub fn $name() {
            peer_list_part_roundtrip($a, $b)
        }
    )*};
}
pl_inst!(
    c16_peerlist_rt_00 = (0, 0), c16_peerlist_rt_10 = (1, 0), c16_peerlist_rt_01 = (0, 1), c16_peerlist_rt_21 = (2, 1),
    c16_peerlist_rt_70 = (7, 0), c16_peerlist_rt_07 = (0, 7), c16_peerlist_rt_80 = (8, 0), c16_peerlist_rt_08 = (0, 8),
    c16_peerlist_rt_77 = (7, 7), c16_peerlist_rt_99 = (9, 9), c16_peerlist_rt_38 = (3, 8), c16_peerlist_rt_93 = (9, 3)
);

/// C16-H3b: the own-addresses part: encode_addrs_part -> read_addr_list
fn addrs_part_roundtrip(n4: usize, n6: usize) {
    let raw: [[u8; 18]; 18] = kani::any();
    let (addrs, norm) = addr_lists(&raw, n4, n6);
    let mut info = empty_info();
    info.addrs = addrs;
    let mut wire = [0u8; 200];
    let len = {
        let mut c = Cursor::new(&mut wire[..]);
        assert!(okio(info.encode_addrs_part(&mut c)).is_some());
        c.position() as usize
    };
    let mut rd = Cursor::new(&wire[..len]).take(len as u64);
    let back = okio(NodeInfo::read_addr_list(&mut rd));
    assert!(back.is_some());
    let back = back.unwrap();
    assert!(same_addrs(&back, &norm));
    assert!(rd.limit() == 0);
    std::mem::forget(back);
    std::mem::forget(info);
    witness!();
}
macro_rules! ap_inst {
    ($($name:ident = ($a:expr, $b:expr)),*) => {$(
        #[cfg_attr(kani, kani::proof, kani::unwind(20))]
        pub fn $name() {
            addrs_part_roundtrip($a, $b)
        }
    )*};
}
ap_inst!(c16_addrs_rt_00 = (0, 0), c16_addrs_rt_11 = (1, 1), c16_addrs_rt_70 = (7, 0), c16_addrs_rt_80 = (8, 0),
         c16_addrs_rt_08 = (0, 8), c16_addrs_rt_99 = (9, 9));


/// C16-H3c: wire image of one peer-list entry with n4 IPv4 / n6 IPv6 addresses (concrete addresses, symbolic node-id
/// presence): flags byte = (min(n6,7) << 3) | min(n4,7) | id bit, then id, then at most seven IPv6 and seven IPv4
/// addresses in that order - the only form the decoder's 3-bit counters can represent
fn peer_entry_wire(n4: usize, n6: usize) {
    let has_id: bool = kani::any();
    let mut info = empty_info();
    let mut addrs: AddrList = SmallVec::new();
    let mut i = 0;
    while i < 9 {
        if i < n4 {
            addrs.push(SocketAddr::V4(SocketAddrV4::new(Ipv4Addr::new(10, 0, i as u8, 1), 1000 + i as u16)));
        }
        if i < n6 {
            addrs.push(SocketAddr::V6(SocketAddrV6::new(Ipv6Addr::new(0xfd00, 0, 0, 0, 0, 0, i as u16, 1), 2000 + i as u16, 0, 0)));
        }
        i += 1;
    }
    info.peers.push(PeerInfo { node_id: if has_id { Some([0xab; 16]) } else { None }, addrs });
    let mut wire = [0u8; 400];
    let len = {
        let mut c = Cursor::new(&mut wire[..]);
        assert!(okio(info.encode_peer_list_part(&mut c)).is_some());
        c.position() as usize
    };
    let k4 = if n4 < 7 { n4 } else { 7 };
    let k6 = if n6 < 7 { n6 } else { 7 };
    let idl = if has_id { 16 } else { 0 };
    assert!(len == 1 + idl + 18 * k6 + 6 * k4);
    assert!(wire[0] == ((k6 as u8) << 3) | (k4 as u8) | if has_id { 0x80 } else { 0 });
    if has_id {
        assert!(wire[1] == 0xab && wire[16] == 0xab);
    }
    // IPv6 block first, in list order; then IPv4 block
    let mut j = 0;
    while j < 7 {
        if j < k6 {
            let o = 1 + idl + 18 * j;
            assert!(wire[o] == 0xfd && wire[o + 13] == j as u8 && wire[o + 15] == 1);
            assert!(u16::from_be_bytes([wire[o + 16], wire[o + 17]]) == 2000 + j as u16);
        }
        if j < k4 {
            let o = 1 + idl + 18 * k6 + 6 * j;
            assert!(wire[o] == 10 && wire[o + 2] == j as u8);
            assert!(u16::from_be_bytes([wire[o + 4], wire[o + 5]]) == 1000 + j as u16);
        }
        j += 1;
    }
    std::mem::forget(info);
    witness!();
}
macro_rules! pw_inst {
    ($($name:ident = ($a:expr, $b:expr)),*) => {$(
        #[cfg_attr(kani, kani::proof, kani::unwind(20))]
        pub fn $name() {
            peer_entry_wire($a, $b)
        }
    )*};
}
pw_inst!(c16_peer_entry_wire_00 = (0, 0), c16_peer_entry_wire_10 = (1, 0), c16_peer_entry_wire_01 = (0, 1), c16_peer_entry_wire_33 = (3, 3),
         c16_peer_entry_wire_70 = (7, 0), c16_peer_entry_wire_07 = (0, 7), c16_peer_entry_wire_80 = (8, 0), c16_peer_entry_wire_08 = (0, 8),
         c16_peer_entry_wire_77 = (7, 7), c16_peer_entry_wire_99 = (9, 9), c16_peer_entry_wire_92 = (9, 2), c16_peer_entry_wire_29 = (2, 9));

// ============================================================================ C16: one peer-list entry, limit and flags byte
include!(concat!(env!("VH_GEN"), "/extracted_messages.rs"));

/// The statements of NodeInfo::encode_peer_list_part between sorting an entry's addresses by family and writing the
/// flags byte (extracted): for every number of IPv4 and IPv6 addresses (0..=10 each) at most SEVEN per family remain,
/// and the flags byte carries exactly those two counts in its two 3-bit fields plus the identity bit - the format's
/// normalisation ("at most seven addresses per family per entry"); a count of 8 would spill into the next field.
#[cfg_attr(kani, kani::proof, kani::unwind(12))]
pub fn c16_peer_entry_limit_and_flags() {
    let n4: usize = kani::any();
    let n6: usize = kani::any();
    let has_id: bool = kani::any();
    kani::assume(n4 <= 10 && n6 <= 10);
    let mut a4: SmallVec<[u8; 16]> = SmallVec::new();
    let mut a6: SmallVec<[u8; 16]> = SmallVec::new();
    let mut i = 0;
    while i < 10 {
        if i < n4 {
            a4.push(4);
        }
        if i < n6 {
            a6.push(6);
        }
        i += 1;
    }
    let p = XPeerEntry { node_id: if has_id { Some(1) } else { None } };
    let (flags, l4, l6) = x_peer_entry_flags(&p, a4, a6);
    let e4 = if n4 < 7 { n4 } else { 7 };
    let e6 = if n6 < 7 { n6 } else { 7 };
    assert!(l4 == e4 && l6 == e6);
    assert!((flags & 0x07) as usize == e4);
    assert!(((flags >> 3) & 0x07) as usize == e6);
    assert!((flags & 0x80 != 0) == has_id);
    assert!(flags & 0x40 == 0);
    vcover!(n4 == 8, "eight_ipv4_addresses");
    vcover!(n6 >= 8, "eight_or_more_ipv6_addresses");
    witness!();
}

/// ... and the same statements of NodeInfo::encode_addrs_part (the node's own address list): at most seven per family,
/// flags byte = the two counts, top two bits clear.
#[cfg_attr(kani, kani::proof, kani::unwind(12))]
pub fn c16_own_addrs_limit_and_flags() {
    let n4: usize = kani::any();
    let n6: usize = kani::any();
    kani::assume(n4 <= 10 && n6 <= 10);
    let mut a4: SmallVec<[u8; 16]> = SmallVec::new();
    let mut a6: SmallVec<[u8; 16]> = SmallVec::new();
    let mut i = 0;
    while i < 10 {
        if i < n4 {
            a4.push(4);
        }
        if i < n6 {
            a6.push(6);
        }
        i += 1;
    }
    let (flags, l4, l6) = x_own_addrs_flags(a4, a6);
    let e4 = if n4 < 7 { n4 } else { 7 };
    let e6 = if n6 < 7 { n6 } else { 7 };
    assert!(l4 == e4 && l6 == e6);
    assert!((flags & 0x07) as usize == e4);
    assert!(((flags >> 3) & 0x07) as usize == e6);
    assert!(flags & 0xc0 == 0);
    vcover!(n4 == 8, "eight_ipv4_addresses");
    vcover!(n6 >= 8, "eight_or_more_ipv6_addresses");
    witness!();
}

// Level-2 confirmation tests for recorded findings: each test states the property clause and FAILS (or panics) on a
// tree that has the defect, passes on a repaired tree. Run against the real build by native_confirm/run.sh.
use super::common::*;
use crate::{config::Config, types::Mode};
use std::net::SocketAddr;

fn two_connected_nodes() -> (TapSimulator, SocketAddr, SocketAddr) {
    let config = Config { device_type: Type::Tap, mode: Mode::Switch, ..Config::default() };
    let mut sim = TapSimulator::new();
    let node1 = sim.add_node(false, &config);
    let node2 = sim.add_node(false, &config);
    sim.connect(node1, node2);
    sim.simulate_all_messages();
    assert!(sim.is_connected(node1, node2));
    assert!(sim.is_connected(node2, node1));
    (sim, node1, node2)
}

/// C08 / F1: a datagram of 1..23 bytes (first byte != 0xff) with the spoofed source address of an established
/// peer must be dropped, not abort the node.
#[test]
fn vfind_c08_short_datagram_from_peer_address() {
    for len in [1usize, 2, 8, 23] {
        let (mut sim, node1, node2) = two_connected_nodes();
        let node = sim.get_node(node2);
        assert!(node.socket().put_inbound(node1, vec![0u8; len]));
        node.trigger_socket_event();
        assert!(sim.is_connected(node2, node1));
    }
}

fn one_sealed_data_datagram(sim: &mut TapSimulator, from: SocketAddr) -> Vec<u8> {
    let frame = vec![6, 5, 4, 3, 2, 1, 1, 2, 3, 4, 5, 6, 1, 2, 3, 4, 5, 6, 7, 8];
    let node = sim.get_node(from);
    node.device().put_inbound(frame);
    node.trigger_device_event();
    let (_dst, data) = node.socket().pop_outbound().expect("a datagram was sent");
    data
}

/// C02 / F12: a sealed datagram whose key-id byte was altered (bits 2..7) must be dropped, nothing delivered.
#[test]
fn vfind_c02_keyid_high_bits_malleable() {
    for flip in [0x04u8, 0x80, 0xfc] {
        let (mut sim, node1, node2) = two_connected_nodes();
        let mut data = one_sealed_data_datagram(&mut sim, node1);
        data[0] ^= flip;
        let node = sim.get_node(node2);
        assert!(node.socket().put_inbound(node1, data));
        node.trigger_socket_event();
        assert!(node.device().pop_outbound().is_none(), "altered datagram (key id ^ {:#x}) was delivered", flip);
    }
    // control: the unaltered datagram is delivered
    let (mut sim, node1, node2) = two_connected_nodes();
    let data = one_sealed_data_datagram(&mut sim, node1);
    let node = sim.get_node(node2);
    assert!(node.socket().put_inbound(node1, data));
    node.trigger_socket_event();
    assert!(node.device().pop_outbound().is_some());
}

/// C13 / F2: priority-tagged frames (802.1Q tag with VLAN id 0) count as untagged
#[test]
fn vfind_c13_vlan0_is_untagged() {
    for tci_hi in [0x00u8, 0xe0, 0x10] {
        let tagged = [6, 5, 4, 3, 2, 1, 1, 2, 3, 4, 5, 6, 0x81, 0x00, tci_hi, 0x00, 0x08, 0x00, 9, 9];
        let plain = [6, 5, 4, 3, 2, 1, 1, 2, 3, 4, 5, 6, 0x08, 0x00, 9, 9];
        let (s1, d1) = Frame::parse(&tagged).unwrap();
        let (s2, d2) = Frame::parse(&plain).unwrap();
        assert_eq!(s1, s2);
        assert_eq!(d1, d2);
        assert_eq!(s1.len, 6);
    }
}

/// C12 / F3: after a shrinking announcement [A, B] -> [A] the dropped claim B disappears at once
#[test]
fn vfind_c12_shrinking_announcement_drops_claims() {
    use crate::{table::ClaimTable, types::Range};
    use std::str::FromStr;
    MockTimeSource::set_time(1000);
    let mut t = ClaimTable::<MockTimeSource>::new(10, 300);
    let p: SocketAddr = "1.2.3.4:5".parse().unwrap();
    let a = Range::from_str("10.0.1.0/24").unwrap();
    let b = Range::from_str("10.0.2.0/24").unwrap();
    t.set_claims(p, smallvec::smallvec![a, b]);
    assert_eq!(t.claim_len(), 2);
    t.set_claims(p, smallvec::smallvec![a]);
    assert_eq!(t.claim_len(), 1, "withdrawn claim is still in the table");
    assert_eq!(t.lookup(crate::types::Address::from_str("10.0.2.7").unwrap()), None);
}

// harnesses over /repo/src/payload.rs  (C19, C13-H1)

/// independent reference dissector for Ethernet frames: (src, dst, addr_len) or None
fn ref_frame(d: &[u8]) -> Option<([u8; 8], [u8; 8], u8, bool)> {
    if d.len() < 14 {
        return None;
    }
    let mut src = [0u8; 8];
    let mut dst = [0u8; 8];
    if d[12] == 0x81 && d[13] == 0x00 {
        if d.len() < 16 {
            return None;
        }
        let hi = d[14] & 0x0f;
        let lo = d[15];
        src[0] = hi;
        src[1] = lo;
        dst[0] = hi;
        dst[1] = lo;
        let mut i = 0;
        while i < 6 {
            src[2 + i] = d[6 + i];
            dst[2 + i] = d[i];
            i += 1;
        }
        Some((src, dst, 8, hi == 0 && lo == 0))
    } else {
        let mut i = 0;
        while i < 6 {
            src[i] = d[6 + i];
            dst[i] = d[i];
            i += 1;
        }
        Some((src, dst, 6, false))
    }
}

fn same_prefix(a: &[u8; 16], b: &[u8; 8], n: usize) -> bool {
    let mut i = 0;
    while i < n {
        if a[i] != b[i] {
            return false;
        }
        i += 1;
    }
    true
}

/// C19-H1: Frame::parse is exact and total on every byte string of the given length (it reads at most 16 bytes).
/// For VLAN id 0 both the tagged (8-byte, id 0) and the untagged (6-byte) form are accepted here: the folding
/// itself is the subject of C13.
fn frame_exact(len: usize) {
    let data: [u8; 24] = kani::any();
    let res = Frame::parse(&data[..len]);
    // errors are forgotten, not dropped: the drop glue of `Error` (io::Error variants) is irrelevant and costly
    let res = match res {
        Ok(v) => Some(v),
        Err(e) => {
            std::mem::forget(e);
            None
        }
    };
    match ref_frame(&data[..len]) {
        None => assert!(res.is_none()),
        Some((rs, rd, rl, vlan0)) => {
            assert!(res.is_some());
            let (s, d) = res.unwrap();
            if vlan0 && s.len == 6 {
                // folded form: plain MACs
                assert!(d.len == 6);
                let mut i = 0;
                while i < 6 {
                    assert!(s.data[i] == rs[2 + i] && d.data[i] == rd[2 + i]);
                    i += 1;
                }
            } else {
                assert!(s.len == rl && d.len == rl);
                assert!(same_prefix(&s.data, &rs, rl as usize));
                assert!(same_prefix(&d.data, &rd, rl as usize));
            }
        }
    }
    witness!();
}
macro_rules! frame_inst {
    ($($name:ident = $len:expr),*) => {$(
        #[cfg_attr(kani, kani::proof, kani::unwind(10))]
        pub fn $name() {
            frame_exact($len)
        }
    )*};
}
frame_inst!(c19_frame_exact_len00 = 0, c19_frame_exact_len01 = 1, c19_frame_exact_len02 = 2, c19_frame_exact_len03 = 3,
    c19_frame_exact_len04 = 4, c19_frame_exact_len05 = 5, c19_frame_exact_len06 = 6, c19_frame_exact_len07 = 7,
    c19_frame_exact_len08 = 8, c19_frame_exact_len09 = 9, c19_frame_exact_len10 = 10, c19_frame_exact_len11 = 11,
    c19_frame_exact_len12 = 12, c19_frame_exact_len13 = 13, c19_frame_exact_len14 = 14, c19_frame_exact_len15 = 15,
    c19_frame_exact_len16 = 16, c19_frame_exact_len17 = 17, c19_frame_exact_len18 = 18, c19_frame_exact_len19 = 19,
    c19_frame_exact_len20 = 20, c19_frame_exact_len21 = 21, c19_frame_exact_len22 = 22, c19_frame_exact_len23 = 23,
    c19_frame_exact_len24 = 24);

/// C13-H1: VLAN normalisation. Behind ethertype 0x8100 the address is the 12-bit VLAN id + MAC; the PCP/DEI nibble
/// never influences it; priority-tagged frames (VLAN id 0) count as untagged: plain 6-byte MAC addresses, equal to
/// what the same frame without the tag yields; nested tags are ignored.
#[cfg_attr(kani, kani::proof, kani::unwind(10))]
pub fn c13_vlan_normalisation() {
    let data: [u8; 20] = kani::any();
    let nibble: u8 = kani::any();
    kani::assume(data[12] == 0x81 && data[13] == 0x00);
    let (s, d) = crate::vh_common::okf(Frame::parse(&data)).unwrap();
    let vid = (((data[14] & 0x0f) as u16) << 8) | data[15] as u16;
    // the same frame with another PCP/DEI nibble
    let mut other = data;
    other[14] = (data[14] & 0x0f) | (nibble << 4);
    let (s2, d2) = crate::vh_common::okf(Frame::parse(&other)).unwrap();
    assert!(s == s2 && d == d2);
    // the same frame without the tag
    let mut untagged = [0u8; 16];
    untagged[..12].copy_from_slice(&data[..12]);
    untagged[12] = 0x08;
    untagged[13] = 0x00;
    let (us, ud) = crate::vh_common::okf(Frame::parse(&untagged)).unwrap();
    assert!(us.len == 6 && ud.len == 6);
    if vid == 0 {
        assert!(s.len == 6 && d.len == 6);
        assert!(s == us && d == ud);
    } else {
        assert!(s.len == 8 && d.len == 8);
        assert!(s.data[0] == (vid >> 8) as u8 && s.data[1] == (vid & 0xff) as u8);
        assert!(d.data[0] == (vid >> 8) as u8 && d.data[1] == (vid & 0xff) as u8);
        let mut i = 0;
        while i < 6 {
            assert!(s.data[2 + i] == data[6 + i] && d.data[2 + i] == data[i]);
            i += 1;
        }
        assert!(s != us);
    }
    vcover!(vid == 0 && (data[14] >> 4) != 0, "priority_tagged");
    vcover!(vid == 0xfff, "vid_max");
    vcover!(data[16] == 0x81 && data[17] == 0x00, "nested_tag");
    witness!();
}

/// C19-H2: Packet::parse is exact and total on every byte string of length <= 64 (it reads at most 40 bytes)
fn packet_exact(len: usize) {
    let data: [u8; 64] = kani::any();
    let res = Packet::parse(&data[..len]);
    let res = match res {
        Ok(v) => Some(v),
        Err(e) => {
            std::mem::forget(e);
            None
        }
    };
    let v = if len > 0 { data[0] >> 4 } else { 0 };
    if len == 0 || (v != 4 && v != 6) || (v == 4 && len < 20) || (v == 6 && len < 40) {
        assert!(res.is_none());
    } else {
        assert!(res.is_some());
        let (s, d) = res.unwrap();
        if v == 4 {
            assert!(s.len == 4 && d.len == 4);
            let mut i = 0;
            while i < 4 {
                assert!(s.data[i] == data[12 + i] && d.data[i] == data[16 + i]);
                i += 1;
            }
        } else {
            assert!(s.len == 16 && d.len == 16);
            let mut i = 0;
            while i < 16 {
                assert!(s.data[i] == data[8 + i] && d.data[i] == data[24 + i]);
                i += 1;
            }
        }
    }
    witness!();
}
macro_rules! packet_inst {
    ($($name:ident = $len:expr),*) => {$(
        #[cfg_attr(kani, kani::proof, kani::unwind(18))]
        pub fn $name() {
            packet_exact($len)
        }
    )*};
}
packet_inst!(c19_packet_exact_len00 = 0, c19_packet_exact_len01 = 1, c19_packet_exact_len02 = 2, c19_packet_exact_len03 = 3, c19_packet_exact_len04 = 4, c19_packet_exact_len05 = 5, c19_packet_exact_len06 = 6, c19_packet_exact_len07 = 7, c19_packet_exact_len08 = 8, c19_packet_exact_len09 = 9, c19_packet_exact_len10 = 10, c19_packet_exact_len11 = 11, c19_packet_exact_len12 = 12, c19_packet_exact_len13 = 13, c19_packet_exact_len14 = 14, c19_packet_exact_len15 = 15, c19_packet_exact_len16 = 16, c19_packet_exact_len17 = 17, c19_packet_exact_len18 = 18, c19_packet_exact_len19 = 19, c19_packet_exact_len20 = 20, c19_packet_exact_len21 = 21, c19_packet_exact_len22 = 22, c19_packet_exact_len23 = 23, c19_packet_exact_len24 = 24, c19_packet_exact_len25 = 25, c19_packet_exact_len26 = 26, c19_packet_exact_len27 = 27, c19_packet_exact_len28 = 28, c19_packet_exact_len29 = 29, c19_packet_exact_len30 = 30, c19_packet_exact_len31 = 31, c19_packet_exact_len32 = 32, c19_packet_exact_len33 = 33, c19_packet_exact_len34 = 34, c19_packet_exact_len35 = 35, c19_packet_exact_len36 = 36, c19_packet_exact_len37 = 37, c19_packet_exact_len38 = 38, c19_packet_exact_len39 = 39, c19_packet_exact_len40 = 40, c19_packet_exact_len41 = 41, c19_packet_exact_len42 = 42, c19_packet_exact_len43 = 43, c19_packet_exact_len44 = 44, c19_packet_exact_len45 = 45, c19_packet_exact_len46 = 46, c19_packet_exact_len47 = 47, c19_packet_exact_len48 = 48, c19_packet_exact_len49 = 49, c19_packet_exact_len50 = 50, c19_packet_exact_len51 = 51, c19_packet_exact_len52 = 52, c19_packet_exact_len53 = 53, c19_packet_exact_len54 = 54, c19_packet_exact_len55 = 55, c19_packet_exact_len56 = 56, c19_packet_exact_len57 = 57, c19_packet_exact_len58 = 58, c19_packet_exact_len59 = 59, c19_packet_exact_len60 = 60, c19_packet_exact_len61 = 61, c19_packet_exact_len62 = 62, c19_packet_exact_len63 = 63, c19_packet_exact_len64 = 64);

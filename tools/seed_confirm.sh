#!/bin/bash
# Confirm a seeded change in its scratch worktree: (1) existing suite passes with the change (demo excluded),
# (2) demo fails with the change, (3) demo passes without it. Usage: seed_confirm.sh <worktree> <demo test filter>
WT=$1; FILTER=$2
cd "$WT" || exit 2
export CARGO_TARGET_DIR=$WT/target
echo "== suite with change (skipping demo '$FILTER', single-threaded to avoid the timing-flaky beacon cmd test)"
cargo test --offline --workspace --no-fail-fast -- --skip "$FILTER" --test-threads=1 2>&1 | grep -E "^test result|FAILED|failed" | head -5
echo "== demo with change"
cargo test --offline --workspace "$FILTER" 2>&1 | grep -E "^test result|^test .*(ok|FAILED)" | head -8
git apply -R SEED/patch.diff || { echo "cannot revert patch"; exit 2; }
echo "== demo without change"
cargo test --offline --workspace "$FILTER" 2>&1 | grep -E "^test result|^test .*(ok|FAILED)" | head -8
git apply SEED/patch.diff

// harnesses: payload

// harnesses: beacon

// harnesses: common_crypto

// harnesses over /repo/src/crypto/common.rs  (C18 key API, C08 dispatch link)
use crate::vh_common::okf;

// ---------------------------------------------------------------------------------------------- codec contract
// The text codec (to_base62 / from_base62) does not complete under CBMC even for two bytes (64-bit div/mod chains
// around String/Vec growth). For the key API it is replaced - under the solver only - by its CONTRACT: the text denotes
// the big-endian NUMBER, i.e. the byte string without leading zero bytes. The contract is an assumption of every
// pass of these harnesses; a counterexample does not depend on it: native replay runs the real codec.
const CT_CAP: usize = 6;
static mut CT_BYTES: [[u8; 32]; CT_CAP] = [[0; 32]; CT_CAP];
static mut CT_LEN: [usize; CT_CAP] = [0; CT_CAP];
static mut CT_N: usize = 0;

pub fn to_base62_contract(data: &[u8]) -> String {
    assert!(data.len() <= 32);
    let mut lead = 0;
    while lead < data.len() && data[lead] == 0 {
        lead += 1;
    }
    let n = data.len() - lead;
    unsafe {
        assert!(CT_N < CT_CAP, "codec contract table overflow");
        let mut i = 0;
        while i < n {
            CT_BYTES[CT_N][i] = data[lead + i];
            i += 1;
        }
        CT_LEN[CT_N] = n;
        CT_N += 1;
        let tok = [b'A' + (CT_N - 1) as u8];
        String::from(::std::str::from_utf8(&tok).unwrap())
    }
}
pub fn from_base62_contract(data: &str) -> Result<Vec<u8>, char> {
    let b = data.as_bytes();
    assert!(b.len() == 1 && b[0] >= b'A');
    let k = (b[0] - b'A') as usize;
    unsafe {
        assert!(k < CT_N);
        let mut v = Vec::with_capacity(32);
        let mut i = 0;
        while i < CT_LEN[k] {
            v.push(CT_BYTES[k][i]);
            i += 1;
        }
        Ok(v)
    }
}

fn same32(a: &[u8], b: &[u8]) -> bool {
    if a.len() != 32 || b.len() != 32 {
        return false;
    }
    let mut i = 0;
    while i < 32 {
        if a[i] != b[i] {
            return false;
        }
        i += 1;
    }
    true
}

/// C18: every key pair printed by key generation is accepted as private key, as public / trusted key and as a pair,
/// and denotes the same keys; a private key yields its matching public key.
#[cfg_attr(kani, kani::proof, kani::unwind(34), kani::stub(crate::util::to_base62, to_base62_contract), kani::stub(crate::util::from_base62, from_base62_contract))]
pub fn c18_generated_keys_are_accepted() {
    // generate_keypair(None): 32 arbitrary seed bytes from the (modelled) RNG
    let (privkey, pubkey) = Crypto::generate_keypair(None);
    let kp = okf(Crypto::parse_private_key(&privkey));
    assert!(kp.is_some());
    let kp = kp.unwrap();
    let pk = okf(Crypto::parse_public_key(&pubkey));
    assert!(pk.is_some());
    let pk = pk.unwrap();
    // the configured public key is the public key of the configured private key
    assert!(same32(kp.public_key().as_ref(), &pk));
    let pair = okf(Crypto::parse_keypair(&privkey, &pubkey));
    assert!(pair.is_some());
    assert!(same32(pair.unwrap().public_key().as_ref(), &pk));
    let derived = okf(Crypto::public_key_from_private_key(&privkey));
    assert!(derived.is_some());
    let back = okf(Crypto::parse_public_key(&derived.unwrap()));
    assert!(back.is_some() && same32(&back.unwrap(), &pk));
    std::mem::forget(privkey);
    std::mem::forget(pubkey);
    vcover!(pk[0] == 0, "public_key_with_leading_zero_byte");
    witness!();
}

// ===================================================================================================== C08-H2
use crate::crypto::init::verif::{handle_init_rejects, mk_algos, mk_state, NoPayload};
use crate::crypto::core::verif as corev;

/// Datagram dispatch of one connection object (PeerCrypto::handle_message) for a sender without a trusted key:
/// receive buffer with ARBITRARY stale content behind the datagram (the node reuses one buffer), datagram of `len`
/// arbitrary bytes, connection in state
///   0 = established, encrypted (ideal AEAD with an empty seal log: nothing an outsider sends opens)
///   1 = established, unencrypted      2 = handshake pending (no core yet)
///   3 = established, encrypted, handshake object still lingering
/// Decided: no panic / arithmetic fault; an outsider's datagram never yields a message on an encrypted connection;
/// and - whatever is returned - the buffer window stays well formed (start <= end), so that the callers'
/// `data.len()` cannot underflow.
fn dispatch(state: usize, len: usize) {
    let bytes: [u8; 40] = kani::any();
    let mut buf = MsgBuffer::new(100);
    buf.set_length(40);
    buf.message_mut().copy_from_slice(&bytes);
    buf.set_length(len);
    let core = if state == 0 || state == 3 { Some(corev::outsider_core()) } else { None };
    let init = if state >= 2 { Some(mk_state(mk_algos(1, false, &[1.0, 1.0, 1.0], false))) } else { None };
    let mut pc: PeerCrypto<NoPayload> =
        PeerCrypto { node_id: [1; 16], init, rotation: None, unencrypted: state == 1, core, rotate_counter: 0 };
    let res = okf(pc.handle_message(&mut buf));
    assert!(buf.get_start() <= buf.get_start() + buf.len());
    let (s, l) = (buf.get_start(), buf.len());
    assert!(s >= 100 && s + l <= 140 + 1);
    if len == 0 {
        assert!(res.is_none());
    }
    if state != 1 {
        // nothing an outsider sends is accepted as a message, a handshake step or a reply
        assert!(res.is_none());
    } else if let Some(r) = &res {
        match r {
            MessageResult::Message(t) => assert!(*t == bytes[0] && l == len - 1),
            MessageResult::None => assert!(bytes[0] == 0x10),
            _ => assert!(false),
        }
    }
    assert!(pc.rotate_counter == 0 && pc.unencrypted == (state == 1));
    std::mem::forget(pc);
    witness!();
}
/// the rotation state machine is only reachable behind a successful open: for an outsider, never
pub fn rotation_unreachable(_s: &mut crate::crypto::rotate::RotationState, _msg: &[u8]) -> Result<Option<crate::crypto::rotate::RotatedKey>, Error> {
    assert!(false, "rotation message handling reached by a sender without key");
    Err(Error::Crypto("unreachable"))
}
macro_rules! disp_inst {
    ($($name:ident = ($st:expr, $len:expr)),*) => {$(
        #[cfg_attr(kani, kani::proof, kani::unwind(34), kani::stub(crate::crypto::init::InitState::handle_init, handle_init_rejects),
                   kani::stub(crate::crypto::rotate::RotationState::handle_message, rotation_unreachable))]
        pub fn $name() {
            dispatch($st, $len)
        }
    )*};
}
disp_inst!(
    c08_dispatch_enc_len00 = (0, 0), c08_dispatch_enc_len01 = (0, 1), c08_dispatch_enc_len02 = (0, 2), c08_dispatch_enc_len23 = (0, 23),
    c08_dispatch_enc_len24 = (0, 24), c08_dispatch_enc_len25 = (0, 25), c08_dispatch_enc_len40 = (0, 40),
    c08_dispatch_plain_len00 = (1, 0), c08_dispatch_plain_len01 = (1, 1), c08_dispatch_plain_len02 = (1, 2), c08_dispatch_plain_len40 = (1, 40),
    c08_dispatch_pending_len00 = (2, 0), c08_dispatch_pending_len01 = (2, 1), c08_dispatch_pending_len02 = (2, 2), c08_dispatch_pending_len24 = (2, 24),
    c08_dispatch_pending_len40 = (2, 40),
    c08_dispatch_linger_len00 = (3, 0), c08_dispatch_linger_len01 = (3, 1), c08_dispatch_linger_len24 = (3, 24), c08_dispatch_linger_len40 = (3, 40)
);

// ===================================================================================================== C02 / C03 at PeerCrypto level
use crate::vh_common::nonce_val;

/// PeerCrypto::send_message on an encrypted connection: the message type byte and the whole payload go through the
/// seal (exactly one seal over type + payload), the envelope header is in front; on an unencrypted connection (and only
/// there) the bytes leave as they are
fn send_message_seals(n: usize, unencrypted: bool) {
    let payload: [u8; 8] = kani::any();
    let type_: u8 = kani::any();
    kani::assume(type_ != MESSAGE_TYPE_ROTATION);
    let mut buf = MsgBuffer::new(100);
    buf.set_length(n);
    buf.message_mut().copy_from_slice(&payload[..n]);
    let core = if unencrypted { None } else { Some(corev::outsider_core()) };
    let mut pc: PeerCrypto<NoPayload> = PeerCrypto { node_id: [1; 16], init: None, rotation: None, unencrypted, core, rotate_counter: 0 };
    let res = okf(pc.send_message(type_, &mut buf));
    assert!(res.is_some());
    if unencrypted {
        assert!(ring::aead::model_seal_count() == 0);
        assert!(buf.get_start() == 99 && buf.len() == n + 1 && buf.message()[0] == type_);
    } else {
        assert!(ring::aead::model_seal_count() == 1);
        let rec = ring::aead::model_seal_record(0);
        // type byte + payload, nothing left outside the seal
        assert!(rec.len == n + 1);
        assert!(buf.get_start() == 99 - 8 && buf.len() == n + 1 + 8 + 16);
        // the wire bytes behind the header are the ciphertext the AEAD produced (first 8 bytes compared)
        let m = buf.message();
        let mut ct = [0u8; 8];
        let k = if n + 1 < 8 { n + 1 } else { 8 };
        ct[..k].copy_from_slice(&m[8..8 + k]);
        assert!(u64::from_le_bytes(ct) == rec.ct[0] & if k == 8 { u64::MAX } else { (1u64 << (8 * k)) - 1 });
    }
    std::mem::forget(pc);
    witness!();
}
#[cfg_attr(kani, kani::proof, kani::unwind(34))]
pub fn c02_send_message_seals_type_and_payload_n4() {
    send_message_seals(4, false)
}
#[cfg_attr(kani, kani::proof, kani::unwind(34))]
pub fn c02_send_message_seals_type_and_payload_n0() {
    send_message_seals(0, false)
}
#[cfg_attr(kani, kani::proof, kani::unwind(34))]
pub fn c02_send_message_plain_only_when_flagged() {
    send_message_seals(4, true)
}

/// PeerCrypto::every_second drives the replay-window tick of the connection's core (all four slots)
#[cfg_attr(kani, kani::proof, kani::unwind(34))]
pub fn c03_peercrypto_tick_reaches_core() {
    let seen: [[u8; 12]; 4] = kani::any();
    let mut core = corev::outsider_core();
    let mut i = 0;
    while i < 4 {
        kani::assume(nonce_val(&seen[i]) < (1u128 << 96) - 1);
        corev::set_seen(&mut core, i, seen[i]);
        i += 1;
    }
    let mut pc: PeerCrypto<NoPayload> = PeerCrypto { node_id: [1; 16], init: None, rotation: None, unencrypted: false, core: Some(core), rotate_counter: 0 };
    let mut out = MsgBuffer::new(100);
    let r = okf(pc.every_second(&mut out));
    assert!(r.is_some());
    let core = pc.core.as_ref().unwrap();
    let mut i = 0;
    while i < 4 {
        assert!(corev::next_min(core, i) == nonce_val(&seen[i]) + 1);
        i += 1;
    }
    std::mem::forget(pc);
    witness!();
}

/// C18: the key pair a node derives from its configured password is the key pair `genkey --password` prints for the
/// same password (every n-character ASCII password, whitespace and control characters included)
fn password_keys_match(n: usize) {
    let pwb: [u8; 2] = kani::any();
    kani::assume(pwb[0] < 128 && pwb[1] < 128);
    // longer passwords: two symbolic characters followed by a concrete filler (concrete shape, symbolic data)
    let mut full = [b'x'; 40];
    full[0] = pwb[0];
    full[1] = pwb[1];
    // all bytes are ASCII by the assumption above; the validating constructor's alignment loops do not unwind for 33 bytes
    let pw = unsafe { ::std::str::from_utf8_unchecked(&full[..n]) };
    let (privkey, pubkey) = Crypto::generate_keypair(Some(pw));
    let node = Crypto::keypair_from_password(pw);
    let printed_pub = okf(Crypto::parse_public_key(&pubkey));
    assert!(printed_pub.is_some());
    assert!(same32(node.public_key().as_ref(), &printed_pub.unwrap()));
    std::mem::forget(privkey);
    std::mem::forget(pubkey);
    std::mem::forget(node);
    vcover!(n > 0 && full[n - 1] == b' ', "password_with_trailing_blank");
    witness!();
}
#[cfg_attr(kani, kani::proof, kani::unwind(34), kani::stub(crate::util::to_base62, to_base62_contract), kani::stub(crate::util::from_base62, from_base62_contract))]
pub fn c18_password_keys_match_printed_keys_len1() {
    password_keys_match(1)
}
#[cfg_attr(kani, kani::proof, kani::unwind(34), kani::stub(crate::util::to_base62, to_base62_contract), kani::stub(crate::util::from_base62, from_base62_contract))]
pub fn c18_password_keys_match_printed_keys_len2() {
    password_keys_match(2)
}
#[cfg_attr(kani, kani::proof, kani::unwind(42), kani::stub(crate::util::to_base62, to_base62_contract), kani::stub(crate::util::from_base62, from_base62_contract))]
pub fn c18_password_keys_match_printed_keys_len32() {
    password_keys_match(32)
}
#[cfg_attr(kani, kani::proof, kani::unwind(42), kani::stub(crate::util::to_base62, to_base62_contract), kani::stub(crate::util::from_base62, from_base62_contract))]
pub fn c18_password_keys_match_printed_keys_len33() {
    password_keys_match(33)
}
#[cfg_attr(kani, kani::proof, kani::unwind(42), kani::stub(crate::util::to_base62, to_base62_contract), kani::stub(crate::util::from_base62, from_base62_contract))]
pub fn c18_password_keys_match_printed_keys_len40() {
    password_keys_match(40)
}
#[cfg_attr(kani, kani::proof, kani::unwind(34), kani::stub(crate::util::to_base62, to_base62_contract), kani::stub(crate::util::from_base62, from_base62_contract))]
pub fn c18_password_keys_match_printed_keys_empty() {
    password_keys_match(0)
}

/// ... also on the tick on which this side emits a key-rotation message (every_second returns early with a Reply
/// there): the replay-window tick must not be skipped. Rotation state: an unconfirmed own proposal that is re-sent.
#[cfg_attr(kani, kani::proof, kani::unwind(34))]
pub fn c03_peercrypto_tick_on_rotation_tick() {
    let seen: [u8; 12] = kani::any();
    kani::assume(nonce_val(&seen) < (1u128 << 96) - 1);
    let mut core = corev::outsider_core();
    corev::set_seen(&mut core, 0, seen);
    let rot = crate::crypto::rotate::verif::resending_state();
    let mut pc: PeerCrypto<NoPayload> =
        PeerCrypto { node_id: [1; 16], init: None, rotation: Some(rot), unencrypted: false, core: Some(core), rotate_counter: ROTATE_INTERVAL - 1 };
    let mut out = MsgBuffer::new(100);
    let r = okf(pc.every_second(&mut out));
    // a rotation message goes out on this tick ...
    assert!(matches!(r, Some(MessageResult::Reply)));
    assert!(!out.is_empty());
    assert!(pc.rotate_counter == 0);
    // ... and the window still ticked
    assert!(corev::next_min(pc.core.as_ref().unwrap(), 0) == nonce_val(&seen) + 1);
    std::mem::forget(pc);
    witness!();
}

// ===================================================================================================== C07 at PeerCrypto level
/// The rotation cycle of a connection (every ROTATE_INTERVAL-th tick) with a pending confirmation: the pending key is
/// installed into key slot (id mod 4) of the connection's core for RECEIVING - the sending slot does not move - and the
/// confirmation goes out sealed under the current sending key, as a rotation message.
fn peercrypto_cycle_installs(own_id: u64) {
    let kbytes: [u8; 32] = kani::any();
    let cbytes: [u8; 32] = kani::any();
    let rot = crate::crypto::rotate::verif::pending_state(own_id, &kbytes, &cbytes);
    let core = corev::outsider_core();
    let mut pc: PeerCrypto<NoPayload> =
        PeerCrypto { node_id: [1; 16], init: None, rotation: Some(rot), unencrypted: false, core: Some(core), rotate_counter: ROTATE_INTERVAL - 1 };
    let mut out = MsgBuffer::new(100);
    let r = okf(pc.every_second(&mut out));
    assert!(matches!(r, Some(MessageResult::Reply)));
    assert!(pc.rotate_counter == 0);
    let slot = ((own_id + 2) % 4) as usize;
    let core = pc.core.as_ref().unwrap();
    assert!(corev::sending_slot(core) == 0);
    let kb = corev::slot_key_bytes(core, slot);
    let mut i = 0;
    while i < 32 {
        assert!(kb[i] == kbytes[i]);
        i += 1;
    }
    // exactly one seal (the rotation message), under the unchanged sending key of slot 0
    assert!(ring::aead::model_seal_count() == 1);
    assert!(!out.is_empty() && out.message()[0] == 0);
    std::mem::forget(pc);
    witness!();
}
macro_rules! pcc_inst {
    ($($name:ident = $id:expr),*) => {$(
        #[cfg_attr(kani, kani::proof, kani::unwind(36))]
        pub fn $name() {
            peercrypto_cycle_installs($id)
        }
    )*};
}
pcc_inst!(c07_peercrypto_cycle_installs_id2 = 0, c07_peercrypto_cycle_installs_id3 = 1, c07_peercrypto_cycle_installs_id4 = 2,
          c07_peercrypto_cycle_installs_id5 = 3, c07_peercrypto_cycle_installs_id1000 = 998);

// harnesses over /repo/src/beacon.rs  (C17)
use crate::util::{MockTimeSource, Time};

type Ser = BeaconSerializer<MockTimeSource>;

fn mk_ser() -> Ser {
    Ser::new(b"pw")
}

// ------------------------------------------------------------------------------------------------ marker scan
// begin()/end() are the first five base-62 characters of two key-dependent digests: any two 5-character strings
// can occur. The scan is checked for fixed marker pairs with every kind of overlap, over ALL texts of the given
// length from the alphabet the markers are made of plus one separator.
static mut MARK_B: [u8; 5] = *b"aaaaa";
static mut MARK_E: [u8; 5] = *b"bbbbb";
pub fn begin_stub<TS: TimeSource>(_s: &BeaconSerializer<TS>) -> String {
    unsafe { String::from(::std::str::from_utf8(&MARK_B).unwrap()) }
}
pub fn end_stub<TS: TimeSource>(_s: &BeaconSerializer<TS>) -> String {
    unsafe { String::from(::std::str::from_utf8(&MARK_E).unwrap()) }
}
/// the body decoder is not the subject here (it has its own obligations); it only has to receive a valid slice
pub fn peerlist_decode_stub<TS: TimeSource>(_s: &BeaconSerializer<TS>, data: &str, _ttl: Option<u16>) -> Vec<SocketAddr> {
    let _ = data.len();
    Vec::new()
}

fn marker_scan(b: &[u8; 5], e: &[u8; 5], n: usize) {
    unsafe {
        MARK_B = *b;
        MARK_E = *e;
    }
    let raw: [u8; 12] = kani::any();
    let mut text = [b'-'; 12];
    let mut i = 0;
    while i < n {
        // alphabet {a, b, -}
        kani::assume(raw[i] < 3);
        text[i] = if raw[i] == 0 { b'a' } else if raw[i] == 1 { b'b' } else { b'-' };
        i += 1;
    }
    let s = ::std::str::from_utf8(&text[..n]).unwrap();
    let ser = mk_ser();
    let peers = ser.decode(s, None);
    assert!(peers.is_empty());
    std::mem::forget(peers);
    std::mem::forget(ser);
    witness!();
}
macro_rules! scan_inst {
    ($($name:ident = ($b:expr, $e:expr, $n:expr)),*) => {$(
        #[cfg_attr(kani, kani::proof, kani::unwind(16),
                   kani::stub(crate::beacon::BeaconSerializer::begin, begin_stub),
                   kani::stub(crate::beacon::BeaconSerializer::end, end_stub),
                   kani::stub(crate::beacon::BeaconSerializer::peerlist_decode, peerlist_decode_stub))]
        pub fn $name() {
            marker_scan($b, $e, $n)
        }
    )*};
}
scan_inst!(
    c17_scan_disjoint_markers = (b"aaaaa", b"bbbbb", 11),
    c17_scan_overlap1 = (b"aaaab", b"bbbba", 10),
    c17_scan_overlap2 = (b"aaabb", b"bbaaa", 10),
    c17_scan_equal_markers = (b"ababa", b"ababa", 10),
    c17_scan_overlap4 = (b"abbbb", b"bbbba", 10)
);

// ------------------------------------------------------------------------------------------------ body decoder
pub fn from_base62_arbitrary_10(_d: &str) -> Result<Vec<u8>, char> { arb_bytes(10) }
pub fn from_base62_arbitrary_3(_d: &str) -> Result<Vec<u8>, char> { arb_bytes(3) }
pub fn from_base62_arbitrary_4(_d: &str) -> Result<Vec<u8>, char> { arb_bytes(4) }
pub fn from_base62_arbitrary_16(_d: &str) -> Result<Vec<u8>, char> { arb_bytes(16) }
pub fn from_base62_arbitrary_22(_d: &str) -> Result<Vec<u8>, char> { arb_bytes(22) }
pub fn from_base62_arbitrary_28(_d: &str) -> Result<Vec<u8>, char> { arb_bytes(28) }
fn arb_bytes(n: usize) -> Result<Vec<u8>, char> {
    let a: [u8; 32] = kani::any();
    let mut v = Vec::with_capacity(32);
    let mut i = 0;
    while i < n {
        v.push(a[i]);
        i += 1;
    }
    Ok(v)
}

/// peerlist_decode on a body that decodes to n ARBITRARY bytes (any text, any password, any time): never panics;
/// whatever it returns respects the seed check, the age window (both directions, modulo 2^16 hours) and the length
/// structure 2 + 1 + 6a + 18b + 1
fn body_total(n: usize) {
    let now_h: u16 = kani::any();
    let ttl_set: bool = kani::any();
    let ttl: u16 = kani::any();
    MockTimeSource::set_time(now_h as Time * 3600 + 17);
    let ser = mk_ser();
    let peers = ser.peerlist_decode("x", if ttl_set { Some(ttl) } else { None });
    if n < 4 {
        assert!(peers.is_empty());
    }
    // a + b addresses need 4 + 6a + 18b bytes
    assert!(4 + 6 * peers.len() <= n || peers.is_empty());
    vcover!(!peers.is_empty(), "some_body_decodes");
    std::mem::forget(peers);
    std::mem::forget(ser);
    witness!();
}
macro_rules! body_inst {
    ($($name:ident = ($n:expr, $stub:ident)),*) => {$(
        #[cfg_attr(kani, kani::proof, kani::unwind(66), kani::stub(crate::util::from_base62, $stub))]
        pub fn $name() {
            body_total($n)
        }
    )*};
}
body_inst!(c17_body_total_len03 = (3, from_base62_arbitrary_3), c17_body_total_len04 = (4, from_base62_arbitrary_4),
           c17_body_total_len10 = (10, from_base62_arbitrary_10), c17_body_total_len16 = (16, from_base62_arbitrary_16),
           c17_body_total_len22 = (22, from_base62_arbitrary_22), c17_body_total_len28 = (28, from_base62_arbitrary_28));

#!/bin/bash
# Level-2 replay: run the confirmation tests for recorded findings against the REAL build (real ring/smallvec/std)
# in a scratch git worktree of /repo (removed afterwards). Usage: run.sh [<git-ref, default: working tree>] [test filter]
set -u
REPO=${VERIF_REPO:-/repo}
REF=${1:-WORKTREE}
FILTER=${2:-vfind}
WT=$(mktemp -d /tmp/vfind-wt.XXXXXX)
rmdir "$WT"
if [ "$REF" = "WORKTREE" ]; then
  git -C "$REPO" worktree add --detach -f "$WT" HEAD >/dev/null 2>&1 || exit 2
  (cd "$REPO" && git diff HEAD) | (cd "$WT" && git apply --allow-empty 2>/dev/null)
else
  git -C "$REPO" worktree add --detach -f "$WT" "$REF" >/dev/null 2>&1 || exit 2
fi
cp "$(dirname "$0")/vfind.rs" "$WT/src/tests/vfind.rs"
echo "mod vfind;" >> "$WT/src/tests/mod.rs"
(cd "$WT" && CARGO_TARGET_DIR=/verif/.work/native-confirm-target cargo test --offline --bin vpncloud "$FILTER" -- --test-threads 1 2>&1 | grep -E "^test |test result|panicked|error(\[|:)" )
rc=${PIPESTATUS[0]}
git -C "$REPO" worktree remove --force "$WT"
exit $rc

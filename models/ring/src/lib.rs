//! Verification model of the `ring` 0.17 API subset used by vpncloud.
//!
//! Every primitive is an *ideal* stand-in; what each one assumes is listed in /verif/DESIGN.md 2.2 and
//! repeated in every evidence file. Nothing here is used by the native replay crate (it links real ring).
#![allow(static_mut_refs)]
#![allow(clippy::all)]

#[cfg(kani)]
#[inline]
pub fn nondet<T: kani::Arbitrary>() -> T {
    kani::any()
}
#[cfg(all(not(kani), vh_playback))]
#[inline]
pub fn nondet<T: vhrt::Arbitrary>() -> T {
    // native playback: values come from the solver counterexample
    vhrt::any()
}
#[cfg(all(not(kani), not(vh_playback)))]
#[inline]
pub fn nondet<T: Copy>() -> T {
    // the model is only meaningful under Kani or playback; plain native builds (cargo check) get zeroes
    unsafe { std::mem::zeroed() }
}

#[inline]
fn w64(b: &[u8]) -> u64 {
    let mut a = [0u8; 8];
    a.copy_from_slice(&b[..8]);
    u64::from_le_bytes(a)
}
#[inline]
fn pack32(b: &[u8; 32]) -> [u64; 4] {
    [w64(&b[0..8]), w64(&b[8..16]), w64(&b[16..24]), w64(&b[24..32])]
}
#[inline]
fn pack_prefix32(s: &[u8]) -> [u64; 4] {
    let mut a = [0u8; 32];
    let n = if s.len() < 32 { s.len() } else { 32 };
    a[..n].copy_from_slice(&s[..n]);
    pack32(&a)
}

pub mod error {
    #[derive(Debug, Clone, Copy, PartialEq)]
    pub struct Unspecified;
    #[derive(Debug, Clone, Copy, PartialEq)]
    pub struct KeyRejected;
    impl std::fmt::Display for Unspecified {
        fn fmt(&self, f: &mut std::fmt::Formatter) -> std::fmt::Result {
            f.write_str("ring::error::Unspecified")
        }
    }
    impl std::fmt::Display for KeyRejected {
        fn fmt(&self, f: &mut std::fmt::Formatter) -> std::fmt::Result {
            f.write_str("ring::error::KeyRejected")
        }
    }
}

pub mod rand {
    use super::error::Unspecified;
    pub trait SecureRandom {
        fn fill(&self, dest: &mut [u8]) -> Result<(), Unspecified>;
    }
    #[derive(Clone, Debug)]
    pub struct SystemRandom;
    impl SystemRandom {
        #[inline]
        pub fn new() -> Self {
            SystemRandom
        }
    }
    impl SecureRandom for SystemRandom {
        /// Every byte arbitrary: over-approximates any RNG. No loop for requests up to 64 bytes.
        fn fill(&self, dest: &mut [u8]) -> Result<(), Unspecified> {
            let n = dest.len();
            if n <= 64 {
                let a: [u8; 64] = super::nondet();
                dest.copy_from_slice(&a[..n]);
            } else {
                for b in dest.iter_mut() {
                    *b = super::nondet();
                }
            }
            Ok(())
        }
    }
}

pub mod aead {
    use super::error::Unspecified;
    use super::{pack32, pack_prefix32, w64};

    pub const NONCE_LEN: usize = 12;
    pub const MAX_TAG_LEN: usize = 16;

    pub struct Algorithm {
        id: u8,
        key_len: usize,
    }
    pub static AES_128_GCM: Algorithm = Algorithm { id: 1, key_len: 16 };
    pub static AES_256_GCM: Algorithm = Algorithm { id: 2, key_len: 32 };
    pub static CHACHA20_POLY1305: Algorithm = Algorithm { id: 3, key_len: 32 };
    impl Algorithm {
        #[inline]
        pub fn key_len(&self) -> usize {
            self.key_len
        }
        #[inline]
        pub fn tag_len(&self) -> usize {
            16
        }
        #[inline]
        pub fn nonce_len(&self) -> usize {
            12
        }
        #[inline]
        pub fn model_id(&self) -> u8 {
            self.id
        }
    }
    impl PartialEq for Algorithm {
        #[inline]
        fn eq(&self, o: &Self) -> bool {
            self.id == o.id
        }
    }
    impl Eq for Algorithm {}
    impl std::fmt::Debug for Algorithm {
        fn fmt(&self, f: &mut std::fmt::Formatter) -> std::fmt::Result {
            f.write_str(match self.id {
                1 => "AES_128_GCM",
                2 => "AES_256_GCM",
                _ => "CHACHA20_POLY1305",
            })
        }
    }

    pub struct UnboundKey {
        algo: &'static Algorithm,
        key: [u8; 32],
    }
    impl UnboundKey {
        pub fn new(algo: &'static Algorithm, bytes: &[u8]) -> Result<Self, Unspecified> {
            if bytes.len() != algo.key_len {
                return Err(Unspecified);
            }
            let mut key = [0u8; 32];
            key[..bytes.len()].copy_from_slice(bytes);
            Ok(UnboundKey { algo, key })
        }
        #[inline]
        pub fn algorithm(&self) -> &'static Algorithm {
            self.algo
        }
    }

    pub struct Nonce([u8; NONCE_LEN]);
    impl Nonce {
        #[inline]
        pub fn assume_unique_for_key(v: [u8; NONCE_LEN]) -> Self {
            Nonce(v)
        }
        pub fn try_assume_unique_for_key(v: &[u8]) -> Result<Self, Unspecified> {
            if v.len() != NONCE_LEN {
                return Err(Unspecified);
            }
            let mut a = [0u8; NONCE_LEN];
            a.copy_from_slice(v);
            Ok(Nonce(a))
        }
    }
    pub struct Aad<A>(A);
    impl Aad<[u8; 0]> {
        #[inline]
        pub fn empty() -> Self {
            Aad([])
        }
    }
    impl<A: AsRef<[u8]>> Aad<A> {
        #[inline]
        pub fn from(a: A) -> Self {
            Aad(a)
        }
    }
    pub struct Tag([u8; 16]);
    impl AsRef<[u8]> for Tag {
        #[inline]
        fn as_ref(&self) -> &[u8] {
            &self.0
        }
    }

    /// One sealed datagram as the ideal functionality remembers it.
    #[derive(Clone, Copy)]
    pub struct SealRecord {
        pub algo: u8,
        pub key: [u64; 4],
        pub nonce: [u8; 12],
        pub nonce_lo: u64,
        pub nonce_hi: u32,
        pub len: usize,
        /// first min(len,32) ciphertext bytes, zero padded
        pub ct: [u64; 4],
        pub tag: [u64; 2],
        pub aad_len: usize,
    }
    const EMPTY: SealRecord = SealRecord {
        algo: 0,
        key: [0; 4],
        nonce: [0; 12],
        nonce_lo: 0,
        nonce_hi: 0,
        len: 0,
        ct: [0; 4],
        tag: [0; 2],
        aad_len: 0,
    };
    pub const LOG_CAP: usize = 3;
    static mut LOG: [SealRecord; LOG_CAP] = [EMPTY; LOG_CAP];
    static mut LOG_N: usize = 0;
    static mut OPEN_CALLS: usize = 0;

    /// Harness-side view of the seal log (model API, not part of ring).
    pub fn model_seal_count() -> usize {
        unsafe { LOG_N }
    }
    pub fn model_seal_record(i: usize) -> SealRecord {
        unsafe { LOG[i] }
    }
    pub fn model_open_calls() -> usize {
        unsafe { OPEN_CALLS }
    }

    pub struct LessSafeKey {
        algo: &'static Algorithm,
        key: [u8; 32],
        /// free mode: `open` answers with an arbitrary verdict (symbolic pre-state, no seal preceded)
        free: bool,
    }

    #[inline]
    fn pad_byte(key: &[u8; 32], nonce: &[u8; 12], i: usize) -> u8 {
        key[i % 32] ^ nonce[i % 12] ^ 0xa5
    }

    impl LessSafeKey {
        #[inline]
        pub fn new(k: UnboundKey) -> Self {
            LessSafeKey { algo: k.algo, key: k.key, free: false }
        }
        /// model API: key whose `open` verdict is arbitrary
        #[inline]
        pub fn model_free(algo: &'static Algorithm) -> Self {
            LessSafeKey { algo, key: [0; 32], free: true }
        }
        #[inline]
        pub fn model_key_bytes(&self) -> &[u8; 32] {
            &self.key
        }
        #[inline]
        pub fn algorithm(&self) -> &'static Algorithm {
            self.algo
        }

        /// key bytes as four words, by typed element reads only (no memcpy through `self`: when `self` sits behind a
        /// symbolic array index, CBMC 6.11 havocs byte-level library reads through the pointer)
        fn key_words(&self) -> [u64; 4] {
            let mut w = [0u64; 4];
            let mut i = 0;
            while i < 32 {
                w[i / 8] |= (self.key[i] as u64) << (8 * (i % 8));
                i += 1;
            }
            w
        }

        /// ciphertext = plaintext XOR pad on the first 32 bytes (invertible; confidentiality is not modelled)
        fn apply_pad(&self, nonce: &[u8; 12], data: &mut [u8]) {
            let n = if data.len() < 32 { data.len() } else { 32 };
            let mut i = 0;
            while i < n {
                data[i] ^= pad_byte(&self.key, nonce, i);
                i += 1;
            }
        }

        pub fn seal_in_place_separate_tag<A: AsRef<[u8]>>(
            &self, nonce: Nonce, aad: Aad<A>, in_out: &mut [u8],
        ) -> Result<Tag, Unspecified> {
            self.apply_pad(&nonce.0, in_out);
            let tag: [u8; 16] = super::nondet();
            let rec = SealRecord {
                algo: self.algo.id,
                key: self.key_words(),
                nonce: nonce.0,
                nonce_lo: w64(&nonce.0[0..8]),
                nonce_hi: u32::from_le_bytes([nonce.0[8], nonce.0[9], nonce.0[10], nonce.0[11]]),
                len: in_out.len(),
                ct: pack_prefix32(in_out),
                tag: [w64(&tag[0..8]), w64(&tag[8..16])],
                aad_len: aad.0.as_ref().len(),
            };
            unsafe {
                assert!(LOG_N < LOG_CAP, "ring model: seal log overflow");
                LOG[LOG_N] = rec;
                LOG_N += 1;
            }
            Ok(Tag(tag))
        }

        pub fn open_in_place<'a, A: AsRef<[u8]>>(
            &self, nonce: Nonce, aad: Aad<A>, in_out: &'a mut [u8],
        ) -> Result<&'a mut [u8], Unspecified> {
            unsafe {
                OPEN_CALLS += 1;
            }
            if in_out.len() < 16 {
                return Err(Unspecified);
            }
            let n = in_out.len() - 16;
            let ok = if self.free {
                super::nondet::<bool>()
            } else {
                let key = self.key_words();
                let nlo = w64(&nonce.0[0..8]);
                let nhi = u32::from_le_bytes([nonce.0[8], nonce.0[9], nonce.0[10], nonce.0[11]]);
                let ct = pack_prefix32(&in_out[..n]);
                let tag = [w64(&in_out[n..n + 8]), w64(&in_out[n + 8..n + 16])];
                let al = aad.0.as_ref().len();
                let mut found = false;
                let mut i = 0;
                while i < LOG_CAP {
                    let r = unsafe { &LOG[i] };
                    if i < unsafe { LOG_N }
                        && r.algo == self.algo.id
                        && r.key[0] == key[0]
                        && r.key[1] == key[1]
                        && r.key[2] == key[2]
                        && r.key[3] == key[3]
                        && r.nonce_lo == nlo
                        && r.nonce_hi == nhi
                        && r.len == n
                        && r.ct[0] == ct[0]
                        && r.ct[1] == ct[1]
                        && r.ct[2] == ct[2]
                        && r.ct[3] == ct[3]
                        && r.tag[0] == tag[0]
                        && r.tag[1] == tag[1]
                        && r.aad_len == al
                    {
                        found = true;
                    }
                    i += 1;
                }
                found
            };
            if !ok {
                return Err(Unspecified);
            }
            let (data, _) = in_out.split_at_mut(n);
            self.apply_pad(&nonce.0, data);
            Ok(data)
        }
    }
}

pub mod digest {
    use super::w64;
    pub struct Algorithm {
        id: u8,
        pub output_len: usize,
    }
    pub static SHA256: Algorithm = Algorithm { id: 1, output_len: 32 };
    pub static SHA512: Algorithm = Algorithm { id: 2, output_len: 64 };
    // two further uninterpreted functions, used by the pbkdf2 model only (a secret longer than 32 bytes is compressed first)
    pub(crate) static MODEL_KDF_COMPRESS: Algorithm = Algorithm { id: 3, output_len: 32 };
    pub(crate) static MODEL_KDF_LONG: Algorithm = Algorithm { id: 4, output_len: 64 };
    impl Algorithm {
        /// ring offers the length both as a field (0.16) and as a method
        pub fn output_len(&self) -> usize {
            self.output_len
        }
    }
    #[derive(Clone, Copy)]
    pub struct Digest {
        v: [u8; 64],
        n: usize,
    }
    impl AsRef<[u8]> for Digest {
        #[inline]
        fn as_ref(&self) -> &[u8] {
            &self.v[..self.n]
        }
    }
    pub const MEMO_CAP: usize = 8;
    pub const INPUT_CAP: usize = 40;
    #[derive(Clone, Copy)]
    struct Memo {
        alg: u8,
        len: usize,
        inp: [u64; 5],
        out: [u8; 64],
    }
    static mut MEMO: [Memo; MEMO_CAP] = [Memo { alg: 0, len: 0, inp: [0; 5], out: [0; 64] }; MEMO_CAP];
    static mut MEMO_N: usize = 0;

    /// Uninterpreted function by memo table: same input => same output, new input => fresh arbitrary output.
    /// Overflow of the table or of the input cap is an assertion failure, never a silent cut.
    pub fn digest(alg: &'static Algorithm, data: &[u8]) -> Digest {
        assert!(data.len() <= INPUT_CAP, "ring model: digest input longer than model cap");
        let mut a = [0u8; INPUT_CAP];
        a[..data.len()].copy_from_slice(data);
        let inp = [w64(&a[0..8]), w64(&a[8..16]), w64(&a[16..24]), w64(&a[24..32]), w64(&a[32..40])];
        unsafe {
            let mut i = 0;
            while i < MEMO_CAP {
                let m = &MEMO[i];
                if i < MEMO_N
                    && m.alg == alg.id
                    && m.len == data.len()
                    && m.inp[0] == inp[0]
                    && m.inp[1] == inp[1]
                    && m.inp[2] == inp[2]
                    && m.inp[3] == inp[3]
                    && m.inp[4] == inp[4]
                {
                    return Digest { v: m.out, n: alg.output_len };
                }
                i += 1;
            }
            assert!(MEMO_N < MEMO_CAP, "ring model: digest memo overflow");
            let out: [u8; 64] = super::nondet();
            MEMO[MEMO_N] = Memo { alg: alg.id, len: data.len(), inp, out };
            MEMO_N += 1;
            Digest { v: out, n: alg.output_len }
        }
    }
}

pub mod pbkdf2 {
    use std::num::NonZeroU32;
    pub struct Algorithm;
    pub static PBKDF2_HMAC_SHA256: Algorithm = Algorithm;
    /// deterministic in (salt, secret) via the digest memo; iteration count is not modelled
    pub fn derive(_a: Algorithm, _it: NonZeroU32, salt: &[u8], secret: &[u8], out: &mut [u8]) {
        let mut inp = [0u8; 40];
        let s = if salt.len() < 8 { salt.len() } else { 8 };
        inp[..s].copy_from_slice(&salt[..s]);
        assert!(secret.len() <= super::digest::INPUT_CAP, "ring model: pbkdf2 secret longer than model cap");
        let d = if secret.len() <= 32 {
            inp[8..8 + secret.len()].copy_from_slice(secret);
            super::digest::digest(&super::digest::SHA512, &inp[..8 + secret.len()])
        } else {
            // 33..=40 bytes: (salt, secret) -> output stays a function of both, through two memo entries
            let c = super::digest::digest(&super::digest::MODEL_KDF_COMPRESS, secret);
            inp[8..40].copy_from_slice(c.as_ref());
            super::digest::digest(&super::digest::MODEL_KDF_LONG, &inp)
        };
        assert!(out.len() <= 64);
        let n = out.len();
        out.copy_from_slice(&d.as_ref()[..n]);
    }
    // vpncloud passes `pbkdf2::PBKDF2_HMAC_SHA256` by value; real ring's Algorithm is Copy
    impl Clone for Algorithm {
        fn clone(&self) -> Self {
            Algorithm
        }
    }
    impl Copy for Algorithm {}
}

pub mod signature {
    use super::error::{KeyRejected, Unspecified};
    use super::{pack32, w64};
    pub const ED25519_PUBLIC_KEY_LEN: usize = 32;
    pub struct EdDSAParameters;
    pub static ED25519: EdDSAParameters = EdDSAParameters;

    pub trait KeyPair {
        type PublicKey: AsRef<[u8]>;
        fn public_key(&self) -> &Self::PublicKey;
    }
    pub struct PublicKey([u8; 32]);
    impl AsRef<[u8]> for PublicKey {
        #[inline]
        fn as_ref(&self) -> &[u8] {
            &self.0
        }
    }
    pub struct Ed25519KeyPair {
        seed: [u8; 32],
        pk: PublicKey,
    }
    /// fixed bijection seed -> public key
    fn derive_pk(seed: &[u8; 32]) -> [u8; 32] {
        let mut pk = [0u8; 32];
        let mut i = 0;
        while i < 32 {
            pk[i] = seed[31 - i] ^ 0x3c;
            i += 1;
        }
        pk
    }
    pub struct Signature([u8; 64]);
    impl AsRef<[u8]> for Signature {
        #[inline]
        fn as_ref(&self) -> &[u8] {
            &self.0
        }
    }
    #[derive(Clone, Copy)]
    struct SigRec {
        pk: [u64; 4],
        len: usize,
        head: [u64; 4],
        sig: [u64; 8],
    }
    const SIG_CAP: usize = 3;
    static mut SIGS: [SigRec; SIG_CAP] = [SigRec { pk: [0; 4], len: 0, head: [0; 4], sig: [0; 8] }; SIG_CAP];
    static mut SIGS_N: usize = 0;

    impl Ed25519KeyPair {
        pub fn from_seed_unchecked(seed: &[u8]) -> Result<Self, KeyRejected> {
            if seed.len() != 32 {
                return Err(KeyRejected);
            }
            let mut s = [0u8; 32];
            s.copy_from_slice(seed);
            let pk = derive_pk(&s);
            Ok(Ed25519KeyPair { seed: s, pk: PublicKey(pk) })
        }
        pub fn from_seed_and_public_key(seed: &[u8], public_key: &[u8]) -> Result<Self, KeyRejected> {
            let kp = Self::from_seed_unchecked(seed)?;
            if public_key.len() != 32 {
                return Err(KeyRejected);
            }
            let mut i = 0;
            while i < 32 {
                if kp.pk.0[i] != public_key[i] {
                    return Err(KeyRejected);
                }
                i += 1;
            }
            Ok(kp)
        }
        pub fn model_seed(&self) -> &[u8; 32] {
            &self.seed
        }
        /// EUF-CMA ideal signature: fresh arbitrary signature bytes, remembered with (pk, len, first 32 bytes).
        /// NOTE: no claimed obligation depends on this log (the handshake parser is out of reach, C01).
        pub fn sign(&self, msg: &[u8]) -> Signature {
            let sig: [u8; 64] = super::nondet();
            let mut s8 = [0u64; 8];
            let mut i = 0;
            while i < 8 {
                s8[i] = w64(&sig[i * 8..i * 8 + 8]);
                i += 1;
            }
            unsafe {
                assert!(SIGS_N < SIG_CAP, "ring model: signature log overflow");
                SIGS[SIGS_N] = SigRec { pk: pack32(&self.pk.0), len: msg.len(), head: super::pack_prefix32(msg), sig: s8 };
                SIGS_N += 1;
            }
            Signature(sig)
        }
    }
    impl KeyPair for Ed25519KeyPair {
        type PublicKey = PublicKey;
        #[inline]
        fn public_key(&self) -> &PublicKey {
            &self.pk
        }
    }
    pub struct UnparsedPublicKey<B> {
        bytes: B,
    }
    impl<B: AsRef<[u8]>> UnparsedPublicKey<B> {
        #[inline]
        pub fn new(_alg: &'static EdDSAParameters, bytes: B) -> Self {
            UnparsedPublicKey { bytes }
        }
        pub fn verify(&self, msg: &[u8], sig: &[u8]) -> Result<(), Unspecified> {
            let pkb = self.bytes.as_ref();
            if pkb.len() != 32 || sig.len() != 64 {
                return Err(Unspecified);
            }
            let mut p = [0u8; 32];
            p.copy_from_slice(pkb);
            let pk = pack32(&p);
            let head = super::pack_prefix32(msg);
            let mut i = 0;
            while i < SIG_CAP {
                let r = unsafe { &SIGS[i] };
                if i < unsafe { SIGS_N } && r.pk == pk && r.len == msg.len() && r.head == head {
                    let mut same = true;
                    let mut j = 0;
                    while j < 8 {
                        if r.sig[j] != w64(&sig[j * 8..j * 8 + 8]) {
                            same = false;
                        }
                        j += 1;
                    }
                    if same {
                        return Ok(());
                    }
                }
                i += 1;
            }
            Err(Unspecified)
        }
    }
}

pub mod agreement {
    use super::error::Unspecified;
    use super::rand::SecureRandom;
    pub struct Algorithm;
    pub static X25519: Algorithm = Algorithm;
    pub struct EphemeralPrivateKey {
        k: [u8; 32],
    }
    pub struct PublicKey([u8; 32]);
    impl AsRef<[u8]> for PublicKey {
        #[inline]
        fn as_ref(&self) -> &[u8] {
            &self.0
        }
    }
    const C: u8 = 0x77;
    impl EphemeralPrivateKey {
        pub fn generate(_alg: &'static Algorithm, rng: &dyn SecureRandom) -> Result<Self, Unspecified> {
            let mut k = [0u8; 32];
            rng.fill(&mut k)?;
            Ok(EphemeralPrivateKey { k })
        }
        /// public = private XOR constant (a bijection; no secrecy is claimed)
        pub fn compute_public_key(&self) -> Result<PublicKey, Unspecified> {
            let mut p = [0u8; 32];
            let mut i = 0;
            while i < 32 {
                p[i] = self.k[i] ^ C;
                i += 1;
            }
            Ok(PublicKey(p))
        }
    }
    #[derive(Clone)]
    pub struct UnparsedPublicKey<B> {
        bytes: B,
    }
    impl<B: AsRef<[u8]>> UnparsedPublicKey<B> {
        #[inline]
        pub fn new(_alg: &'static Algorithm, bytes: B) -> Self {
            UnparsedPublicKey { bytes }
        }
        #[inline]
        pub fn bytes(&self) -> &B {
            &self.bytes
        }
    }
    /// commutative: agree(a, pub(b)) == agree(b, pub(a)); peer keys whose length is not 32 are rejected
    pub fn agree_ephemeral<B: AsRef<[u8]>, R>(
        my: EphemeralPrivateKey, peer: &UnparsedPublicKey<B>, kdf: impl FnOnce(&[u8]) -> R,
    ) -> Result<R, Unspecified> {
        let pb = peer.bytes.as_ref();
        if pb.len() != 32 {
            return Err(Unspecified);
        }
        let mut s = [0u8; 32];
        let mut i = 0;
        while i < 32 {
            s[i] = my.k[i] ^ C ^ pb[i];
            i += 1;
        }
        Ok(kdf(&s))
    }
}

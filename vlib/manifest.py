"""Writes /verif/MANIFEST.json from the obligation registry (./check --manifest)."""
import json
import os

from . import props

NOT_APPLICABLE = {
    "C01": "the handshake parser (InitMsg::read_from) does not complete under symbolic execution within the caps even for one concrete message; the decidable remainder (error atomicity) does not decide the property",
    "C09": "history property of a whole node (GenericCloud) with timers and address-keyed maps; no loop-free kernel implies it",
    "C10": "conservation across 2-5 whole nodes per step; no kernel reachable by bounded symbolic execution implies it",
    "C17": "beacon extraction and decoding did not complete under bounded symbolic execution: BeaconSerializer::decode over a 10-character symbolic text (str::find with 5-character markers, everything else stubbed) and peerlist_decode over a 10-byte symbolic body (codec stubbed, digest modelled) both ran past 15 min / 16 GB; the text codec itself (to_base62/from_base62) does not complete for 2 bytes",
}


def write(verif):
    checks = []
    for pid in sorted(props.PROPS):
        P = props.PROPS[pid]
        checks.append({
            "property_id": pid,
            "quick_cmd": "./check %s --tier quick" % pid,
            "thorough_cmd": "./check %s --tier thorough" % pid,
            "evidence_file": "/verif/evidence/%s.json" % pid,
            "replay_cmd_template": "./check %s --replay {path}" % pid,
            "engine": "kani-cbmc" if all(o["engine"] == "kani" for o in P["obligations"]) else "kani-cbmc + mir2smt",
            "level_claimed": {
                "category": "model_checking",
                "text": P.get("level_text") or ("bounded symbolic execution of the real functions (%s); the solver decides every "
                                                "obligation for all values inside the stated bounds: %s" % (", ".join(P["functions"][:4]), P["bounds"])),
                "design_ref": "DESIGN.md section 4, " + pid,
            },
            "level_note": "Outside the claim: %s. Trusted base / assumptions: %s" % (P["outside"], " | ".join(P["assumptions"][:3])),
            "technique": P.get("technique", "bounded model checking of the compiled Rust sources with Kani/CBMC (SAT), symbolic inputs, "
                                            "unwinding assertions, reachability witnesses, native replay of counterexamples"),
        })
    na = [{"property_id": k, "reason": v} for k, v in sorted(NOT_APPLICABLE.items()) if k not in props.PROPS]
    for pid in ["C%02d" % i for i in range(1, 21)]:
        if pid not in props.PROPS and pid not in NOT_APPLICABLE:
            na.append({"property_id": pid, "reason": "check not built yet in this revision of /verif (planned, see DESIGN.md section 4)"})
    m = {
        "version": 1,
        "setup_cmd": "./check --setup",
        "hooks": {
            "guard": "dswd_vpncloud_verif",
            "enable": "no source hooks: the harness crate include!s the unmodified /repo/src files (DESIGN.md 2.1)",
            "baseline_off_cmd": "cd /repo && cargo test --workspace --no-fail-fast --offline",
            "source_commits": [],
            "add_only": True,
        },
        "engines": [
            {"name": "kani-cbmc", "path": "/verif/harness", "serves_properties": sorted(props.PROPS),
             "kind_free_text": "Kani 0.68 / CBMC 6.11 bounded model checker over the real sources (include!), ideal models for ring/smallvec/HashMap"},
        ],
        "checks": checks,
        "not_applicable": sorted(na, key=lambda x: x["property_id"]),
        "notes": "Exit 0 = held on everything explored (KNOWN-FINDING / INCONCLUSIVE lines possible); exit 1 + VIOLATION = counterexample replayed natively; exit 2 = harness crate does not build against the tree.",
    }
    with open(os.path.join(verif, "MANIFEST.json"), "w") as f:
        json.dump(m, f, indent=1)
    return m

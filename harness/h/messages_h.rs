// harnesses: messages

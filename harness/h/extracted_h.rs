// harnesses over items / statement slices extracted textually from /repo/src/{main,config,cloud}.rs (see vlib/gen.py)
// (C20-H1, C15, C13-H3)

fn fake_format(_args: std::fmt::Arguments<'_>) -> String {
    String::new()
}

/// C20-H1: an interface address with prefix length given by `nd` arbitrary decimal digits: 0..=32 yields the netmask
/// with that many leading one bits, anything else an error, never a panic.
fn netmask_digits(nd: usize) {
    let d: [u8; 3] = kani::any();
    let mut text = *b"10.0.0.1/000";
    let mut v: u32 = 0;
    let mut i = 0;
    while i < nd {
        kani::assume(d[i] >= b'0' && d[i] <= b'9');
        text[9 + i] = d[i];
        v = v * 10 + (d[i] - b'0') as u32;
        i += 1;
    }
    let s = std::str::from_utf8(&text[..9 + nd]).unwrap();
    let res = parse_ip_netmask(s);
    match res {
        Ok((ip, mask)) => {
            assert!(v <= 32);
            assert!(ip.octets() == [10, 0, 0, 1]);
            let expect: u32 = if v == 0 { 0 } else { u32::MAX << (32 - v) };
            assert!(u32::from(mask) == expect);
        }
        Err(e) => {
            std::mem::forget(e);
            assert!(v > 32);
        }
    }
    vcover!(v == 0, "prefix_zero");
    vcover!(v == 32, "prefix_32");
    vcover!(v == 33, "prefix_33");
    vcover!(v > 255, "prefix_above_u8");
    witness!();
}
#[cfg_attr(kani, kani::proof, kani::unwind(14), kani::stub(std::fmt::format, fake_format))]
pub fn c20_netmask_one_digit() {
    netmask_digits(1)
}
#[cfg_attr(kani, kani::proof, kani::unwind(14), kani::stub(std::fmt::format, fake_format))]
pub fn c20_netmask_two_digits() {
    netmask_digits(2)
}
#[cfg_attr(kani, kani::proof, kani::unwind(14), kani::stub(std::fmt::format, fake_format))]
pub fn c20_netmask_three_digits() {
    netmask_digits(3)
}
/// /24 when the prefix is omitted
#[cfg_attr(kani, kani::proof, kani::unwind(14), kani::stub(std::fmt::format, fake_format))]
pub fn c20_netmask_default_24() {
    let res = parse_ip_netmask("10.0.0.1");
    match res {
        Ok((ip, mask)) => {
            assert!(ip.octets() == [10, 0, 0, 1]);
            assert!(u32::from(mask) == 0xffff_ff00);
        }
        Err(e) => {
            std::mem::forget(e);
            assert!(false);
        }
    }
    witness!();
}

// ===================================================================================================== C15
/// the announcement interval chosen in GenericCloud::housekeep: for every own keep-alive and every set of advertised
/// peer timeouts (0..=3 peers; none => the default applies) the delay is one second or strictly shorter than the
/// smallest advertised timeout - and computing it does not panic
fn announce_interval(npeers: usize) {
    let update_freq: UpdateFreq = kani::any();
    let timeouts: [u16; 3] = kani::any();
    let expiries: [Time; 3] = kani::any();
    let last_seen: [Time; 3] = kani::any();
    let now: Time = kani::any();
    kani::assume(now >= 0 && now < (1 << 40));
    let mut c = XCloud { peers: Default::default(), update_freq, next_peers: now };
    let mut smallest: u32 = if npeers == 0 { DEFAULT_PEER_TIMEOUT as u32 } else { u32::MAX };
    let mut i = 0;
    while i < npeers {
        // the local bookkeeping of each peer (last refresh, local expiry) is arbitrary: it must not matter
        c.peers.insert(i as u8, XPeer { last_seen: last_seen[i], timeout: expiries[i], peer_timeout: timeouts[i] });
        if (timeouts[i] as u32) < smallest {
            smallest = timeouts[i] as u32;
        }
        i += 1;
    }
    c.announce_interval_slice(now);
    let delay = c.next_peers - now;
    assert!(delay >= 0);
    assert!(delay <= 1 || delay < smallest as Time);
    // and never longer than the own keep-alive setting
    assert!(delay <= update_freq as Time);
    vcover!(smallest < 120, "small_advertised_timeout");
    witness!();
}
#[cfg_attr(kani, kani::proof, kani::unwind(6))]
pub fn c15_announce_interval_0_peers() {
    announce_interval(0)
}
#[cfg_attr(kani, kani::proof, kani::unwind(6))]
pub fn c15_announce_interval_1_peer() {
    announce_interval(1)
}
#[cfg_attr(kani, kani::proof, kani::unwind(6))]
pub fn c15_announce_interval_2_peers() {
    announce_interval(2)
}
#[cfg_attr(kani, kani::proof, kani::unwind(6))]
pub fn c15_announce_interval_3_peers() {
    announce_interval(3)
}

/// Config::get_keepalive for every peer timeout and keep-alive option: the explicit value, else
/// max(peer_timeout / 2 - 60, 1) without arithmetic fault; and what GenericCloud::new stores as update frequency
#[cfg_attr(kani, kani::proof, kani::unwind(4))]
pub fn c15_keepalive_default_and_explicit() {
    let keepalive_set: bool = kani::any();
    let keepalive: Duration = kani::any();
    let peer_timeout: Duration = kani::any();
    let cfg = XConfig { keepalive: if keepalive_set { Some(keepalive) } else { None }, peer_timeout };
    let k = cfg.get_keepalive();
    if keepalive_set {
        assert!(k == keepalive);
    } else {
        let half = peer_timeout / 2;
        assert!(k == if half > 61 { half - 60 } else { 1 });
        assert!(k >= 1);
        // the default keep-alive is strictly shorter than the own peer timeout (or one second)
        assert!(k == 1 || k < peer_timeout);
    }
    let f = update_freq_of(&cfg);
    if !keepalive_set && peer_timeout <= 2 * (u16::MAX as Duration) {
        assert!(f as Duration == k);
    }
    vcover!(!keepalive_set && peer_timeout < 120, "small_own_timeout");
    witness!();
}

/// one back-off step of a configured peer's reconnect entry: the invariant 1 <= interval <= 3600 and tries <= 10 is
/// preserved, nothing overflows, the interval never shrinks and at most doubles, the next attempt is now + interval
#[cfg_attr(kani, kani::proof, kani::unwind(4))]
pub fn c15_backoff_step() {
    let tries: u16 = kani::any();
    let timeout: u16 = kani::any();
    let now: Time = kani::any();
    kani::assume(now >= 0 && now < (1 << 40));
    kani::assume(timeout >= 1 && timeout <= 3600 && tries <= 10);
    let mut e = XEntry { tries, timeout, next: 0 };
    backoff_step_slice(&mut e, now);
    assert!(e.timeout >= 1 && e.timeout <= 3600 && e.tries <= 10);
    assert!(e.timeout >= timeout);
    assert!(e.timeout == timeout || e.timeout as u32 == std::cmp::min(2 * timeout as u32, 3600));
    assert!(e.next == now + e.timeout as Time);
    assert!(e.next - now <= 3600);
    // the initial entry satisfies the invariant
    assert!(RECONNECT_INIT.0 <= 10 && RECONNECT_INIT.1 >= 1 && RECONNECT_INIT.1 <= 3600);
    vcover!(e.timeout == 3600 && timeout < 3600, "cap_reached");
    witness!();
}

// ===================================================================================================== C13-H3
/// hub and router modes never learn from traffic; switch mode does; normal mode learns on tap devices only
#[cfg_attr(kani, kani::proof, kani::unwind(4))]
pub fn c13_learning_flag_table() {
    let m: u8 = kani::any();
    let tap: bool = kani::any();
    let mode = match m % 4 {
        0 => Mode::Normal,
        1 => Mode::Hub,
        2 => Mode::Switch,
        _ => Mode::Router,
    };
    let (learning, broadcast) = mode_flags_slice(&XModeCfg { mode, device_type: if tap { Type::Tap } else { Type::Tun } });
    match mode {
        Mode::Hub => assert!(!learning && broadcast),
        Mode::Router => assert!(!learning && !broadcast),
        Mode::Switch => assert!(learning && broadcast),
        Mode::Normal => assert!(learning == tap && broadcast == tap),
    }
    witness!();
}

/// C15, first clause at slice level: every refresh sets a peer's expiry to now + own peer timeout, and the tick
/// expires exactly the peers from which nothing arrived for LONGER than the peer timeout (two peers, arbitrary refresh
/// instants, arbitrary own timeout)
#[cfg_attr(kani, kani::proof, kani::unwind(6))]
pub fn c15_silent_peer_expires_exactly_after_timeout() {
    use crate::util::MockTimeSource;
    let peer_timeout: Duration = kani::any();
    let t0: Time = kani::any();
    let t1: Time = kani::any();
    let now: Time = kani::any();
    kani::assume(t0 >= 0 && t0 <= t1 && t1 <= now && now < (1 << 41));
    let r = XRefresher { config: XNodeCfg { peer_timeout } };
    // what the peers advertise is arbitrary and must not matter: the expiry follows the OWN peer timeout
    let mut a = XPeer { last_seen: 0, timeout: 0, peer_timeout: kani::any() };
    let mut b = XPeer { last_seen: 0, timeout: 0, peer_timeout: kani::any() };
    MockTimeSource::set_time(t0);
    r.refresh_slice::<MockTimeSource>(&mut a);
    MockTimeSource::set_time(t1);
    r.refresh_slice::<MockTimeSource>(&mut b);
    assert!(a.timeout == t0 + peer_timeout as Time && b.timeout == t1 + peer_timeout as Time);
    let mut c = XCloud { peers: Default::default(), update_freq: 1, next_peers: 0 };
    c.peers.insert(0, a);
    c.peers.insert(1, b);
    let del = c.expired_peers_slice(now);
    let a_gone = now - t0 > peer_timeout as Time;
    let b_gone = now - t1 > peer_timeout as Time;
    let mut has_a = false;
    let mut has_b = false;
    let mut i = 0;
    while i < 2 {
        if i < del.len() {
            if del[i] == 0 {
                has_a = true;
            } else {
                has_b = true;
            }
        }
        i += 1;
    }
    assert!(del.len() <= 2 && has_a == a_gone && has_b == b_gone);
    vcover!(a_gone && !b_gone, "only_the_silent_peer_goes");
    witness!();
}

// ===================================================================================================== C14 (peer-list step)
fn xaddr(x: u8) -> SocketAddr {
    SocketAddr(0x0a00 + x as u16)
}
/// slice membership over a concrete bound (the lengths are symbolic: `contains` would unwind to the harness bound)
fn has4(sl: &[SocketAddr], x: SocketAddr) -> bool {
    let mut r = false;
    let mut k = 0;
    while k < 4 {
        if k < sl.len() && sl[k] == x {
            r = true;
        }
        k += 1;
    }
    r
}
fn xid(x: u8) -> NodeId {
    NodeId(0x1d00 + x as u16)
}
/// What a node does with a received peer list (GenericCloud::connect_to_peers, extracted whole): EVERY listed entry
/// that is not yet connected (by any of its addresses), is not the node itself and does not carry the identity of a
/// connected peer is handed to connect() - wherever it stands in the list; an entry under the node's own identity is
/// never dialled and its addresses are adopted as own addresses; nothing else is dialled or adopted.
/// State: `npeers` connected peers (symbolic addresses and identities), one known own address, a list of `nlist`
/// entries with two symbolic addresses and an optional symbolic identity each.
fn peer_list_step(npeers: usize, nlist: usize) {
    let own: u8 = kani::any();
    let own_addr: u8 = kani::any();
    let pa: [u8; 2] = kani::any();
    let pid: [u8; 2] = kani::any();
    let la: [u8; 3] = kani::any();
    let lb: [u8; 3] = kani::any();
    let lid: [u8; 3] = kani::any();
    let lhas: [bool; 3] = kani::any();
    // representation invariant of the node: peer-table keys are distinct; no connected peer carries the own identity
    kani::assume(npeers < 2 || pa[0] != pa[1]);
    let mut m = XMesh { node_id: xid(own), peers: Default::default(), own_addresses: SmallVec::new(), dialled: smallvec::ivec::IVec::new() };
    // own_addresses holds 4 inline: with three entries (2 + 1 + 1 addresses) the node starts without a known own address
    let n_own = if nlist < 3 { 1 } else { 0 };
    if n_own == 1 {
        m.own_addresses.push(xaddr(own_addr));
    }
    let mut j = 0;
    while j < npeers {
        kani::assume(pid[j] != own);
        m.peers.insert(xaddr(pa[j]), XPeerId { node_id: xid(pid[j]) });
        j += 1;
    }
    let mut list: smallvec::ivec::IVec<PeerInfo, 3> = smallvec::ivec::IVec::new();
    let mut i = 0;
    while i < nlist {
        let mut addrs: AddrList = SmallVec::new();
        addrs.push(xaddr(la[i]));
        if i == 0 {
            // the first entry carries two addresses, the others one (own_addresses holds 4 inline: 1 + 2 + 1)
            addrs.push(xaddr(lb[i]));
        } else {
            kani::assume(lb[i] == la[i]);
        }
        list.push(PeerInfo { node_id: if lhas[i] { Some(xid(lid[i])) } else { None }, addrs });
        i += 1;
    }
    let r = crate::vh_common::okf(m.connect_to_peers(list.as_slice()));
    assert!(r.is_some());
    // reference: per entry, from the statement of the property
    let mut eligible = [false; 3];
    let mut is_self = [false; 3];
    let mut n_eligible = 0;
    let mut i = 0;
    while i < nlist {
        let mut connected = false;
        let mut known_id = false;
        let mut j = 0;
        while j < npeers {
            connected |= pa[j] == la[i] || pa[j] == lb[i];
            known_id |= lhas[i] && pid[j] == lid[i];
            j += 1;
        }
        is_self[i] = !connected && lhas[i] && lid[i] == own;
        eligible[i] = !connected && !(lhas[i] && lid[i] == own) && !known_id;
        if eligible[i] {
            n_eligible += 1;
        }
        i += 1;
    }
    // every eligible entry is dialled, wherever it stands in the list ...
    assert!(m.dialled.len() == n_eligible);
    let mut i = 0;
    while i < nlist {
        if eligible[i] {
            assert!(has4(m.dialled.as_slice(), xaddr(la[i])));
        }
        if is_self[i] {
            // ... an entry under the own identity is adopted, not dialled
            assert!(has4(m.own_addresses.as_slice(), xaddr(la[i])) && has4(m.own_addresses.as_slice(), xaddr(lb[i])));
        }
        i += 1;
    }
    // ... and nothing else is dialled or adopted (loops over concrete bounds: lengths are symbolic)
    assert!(m.dialled.len() <= nlist);
    let mut k = 0;
    while k < nlist {
        if k < m.dialled.len() {
            let d = m.dialled.as_slice()[k];
            let mut ok = false;
            let mut i = 0;
            while i < nlist {
                ok |= eligible[i] && d == xaddr(la[i]);
                i += 1;
            }
            assert!(ok);
        }
        k += 1;
    }
    assert!(m.own_addresses.len() <= 4 && m.own_addresses.len() >= n_own);
    assert!(n_own == 0 || m.own_addresses[0] == xaddr(own_addr));
    let mut k = n_own;
    while k < 4 {
        if k < m.own_addresses.len() {
            let a = m.own_addresses[k];
            let mut ok = false;
            let mut i = 0;
            while i < nlist {
                ok |= is_self[i] && (a == xaddr(la[i]) || a == xaddr(lb[i]));
                i += 1;
            }
            assert!(ok);
        }
        k += 1;
    }
    assert!(m.peers.len() == npeers);
    vcover!(nlist >= 2 && npeers >= 1 && !eligible[0] && !is_self[0] && eligible[1], "connected_entry_before_unknown_entry");
    vcover!(nlist >= 1 && is_self[0], "own_entry_listed");
    std::mem::forget(m);
    std::mem::forget(list);
    witness!();
}
#[cfg_attr(kani, kani::proof, kani::unwind(6))]
pub fn c14_peer_list_step_p1_l2() {
    peer_list_step(1, 2)
}
#[cfg_attr(kani, kani::proof, kani::unwind(6))]
pub fn c14_peer_list_step_p2_l2() {
    peer_list_step(2, 2)
}
#[cfg_attr(kani, kani::proof, kani::unwind(6))]
pub fn c14_peer_list_step_p2_l3() {
    peer_list_step(2, 3)
}
#[cfg_attr(kani, kani::proof, kani::unwind(6))]
pub fn c14_peer_list_step_p0_l1() {
    peer_list_step(0, 1)
}

// ===================================================================================================== C11/C12 (routing step)
/// What a node does with a payload read from its interface once the table has answered (the `match self.table.lookup(dst)`
/// of GenericCloud::handle_interface_data, extracted; lookup itself is decided on the real table under C11): a destination
/// with a live decision is sent as DATA to exactly that peer and to nobody else; a decision pointing at a non-peer is
/// repaired (its claims removed, the address re-dialled); with no decision, router mode (no broadcast flag) sends nothing
/// and counts exactly the payload as dropped, switch/hub mode sends it once to all peers and counts nothing.
fn routing_step(npeers: usize) {
    let pa: [u8; 2] = kani::any();
    let has_answer: bool = kani::any();
    let ans: u8 = kani::any();
    let broadcast: bool = kani::any();
    let n: usize = kani::any();
    let mut r = XRouter {
        table: XLookup { answer: if has_answer { Some(xaddr(ans)) } else { None }, asked: 0, removed: smallvec::ivec::IVec::new() },
        peers: crate::vstd::collections::HashMap::new(),
        broadcast,
        traffic: XTraffic { dropped_calls: 0, dropped_bytes: 0 },
        sent: smallvec::ivec::IVec::new(),
        broadcasts: smallvec::ivec::IVec::new(),
        connects: smallvec::ivec::IVec::new(),
    };
    let mut j = 0;
    while j < npeers {
        r.peers.insert(xaddr(pa[j]), XPeerId { node_id: xid(j as u8) });
        j += 1;
    }
    let mut is_peer = false;
    let mut j = 0;
    while j < npeers {
        is_peer |= pa[j] == ans;
        j += 1;
    }
    let dst = crate::types::Address { data: kani::any(), len: 4 };
    let mut data = XData { n };
    let res = crate::vh_common::okf(r.route_slice(dst, &mut data));
    assert!(res.is_some());
    assert!(r.table.asked == 1);
    if has_answer {
        assert!(r.sent.len() == 1 && r.sent.as_slice()[0] == (xaddr(ans), MESSAGE_TYPE_DATA));
        assert!(r.broadcasts.len() == 0 && r.traffic.dropped_calls == 0);
        if is_peer {
            assert!(r.table.removed.len() == 0 && r.connects.len() == 0);
        } else {
            // never keep selecting a non-peer as next hop: the stale claims go and the address is dialled again
            assert!(r.table.removed.len() == 1 && r.table.removed.as_slice()[0] == xaddr(ans));
            assert!(r.connects.len() == 1 && r.connects.as_slice()[0] == xaddr(ans));
        }
    } else {
        assert!(r.sent.len() == 0 && r.table.removed.len() == 0 && r.connects.len() == 0);
        if broadcast {
            assert!(r.broadcasts.len() == 1 && r.broadcasts.as_slice()[0] == MESSAGE_TYPE_DATA && r.traffic.dropped_calls == 0);
        } else {
            assert!(r.broadcasts.len() == 0 && r.traffic.dropped_calls == 1 && r.traffic.dropped_bytes == n);
        }
    }
    assert!(r.peers.len() <= npeers);
    vcover!(has_answer && !is_peer, "decision_points_at_a_non_peer");
    vcover!(!has_answer && !broadcast, "router_mode_drop");
    std::mem::forget(r);
    witness!();
}
#[cfg_attr(kani, kani::proof, kani::unwind(6))]
pub fn c11_routing_step_p0() {
    routing_step(0)
}
#[cfg_attr(kani, kani::proof, kani::unwind(6))]
pub fn c11_routing_step_p2() {
    routing_step(2)
}

// ===================================================================================================== C12/C15 (timed-out peers)
/// What housekeep does with the peers its expiry loop selected (the `for addr in del` loop extracted from GenericCloud::housekeep):
/// each is removed from the peer table, its claims are removed from the routing table (nothing keeps pointing at it) and its
/// address is dialled again; the other peer stays.
#[cfg_attr(kani, kani::proof, kani::unwind(6))]
pub fn c12_timed_out_peer_loses_routes_and_is_redialled() {
    let pa: [u8; 2] = kani::any();
    kani::assume(pa[0] != pa[1]);
    let both: bool = kani::any();
    let mut r = XReaper {
        peers: crate::vstd::collections::HashMap::new(),
        table: XLookup { answer: None, asked: 0, removed: smallvec::ivec::IVec::new() },
        connects: smallvec::ivec::IVec::new(),
    };
    r.peers.insert(xaddr(pa[0]), XPeerId { node_id: xid(0) });
    r.peers.insert(xaddr(pa[1]), XPeerId { node_id: xid(1) });
    let mut del: smallvec::ivec::IVec<SocketAddr, 2> = smallvec::ivec::IVec::new();
    del.push(xaddr(pa[0]));
    if both {
        del.push(xaddr(pa[1]));
    }
    let res = crate::vh_common::okf(r.forget_slice(del));
    assert!(res.is_some());
    let n = if both { 2 } else { 1 };
    assert!(r.peers.len() == 2 - n);
    assert!(!r.peers.contains_key(&xaddr(pa[0])) && r.peers.contains_key(&xaddr(pa[1])) == !both);
    assert!(r.table.removed.len() == n && r.table.removed.as_slice()[0] == xaddr(pa[0]));
    assert!(r.connects.len() == n && r.connects.as_slice()[0] == xaddr(pa[0]));
    if both {
        assert!(r.table.removed.as_slice()[1] == xaddr(pa[1]) && r.connects.as_slice()[1] == xaddr(pa[1]));
    }
    assert!(r.table.asked == 0);
    vcover!(both, "two_peers_expire_at_once");
    std::mem::forget(r);
    witness!();
}

//! Native playback runtime. Under `--cfg vh_playback` the harness crate and the environment models obtain their
//! "arbitrary" values from this queue, which the driver fills with the concrete values of a solver counterexample
//! (Kani `--concrete-playback=print` order: one byte vector per primitive `kani::any()` call).
#![allow(static_mut_refs)]

static mut QUEUE: Vec<Vec<u8>> = Vec::new();
static mut POS: usize = 0;
static mut UNDERRUN: usize = 0;
static mut ASSUME_FAILED: bool = false;

pub fn load(vals: Vec<Vec<u8>>) {
    unsafe {
        QUEUE = vals;
        POS = 0;
        UNDERRUN = 0;
    }
}
pub fn underrun() -> usize {
    unsafe { UNDERRUN }
}
pub fn consumed() -> usize {
    unsafe { POS }
}
pub fn total() -> usize {
    unsafe { QUEUE.len() }
}
/// next primitive value, `n` bytes little endian; zeroes once the counterexample is exhausted
pub fn next(n: usize) -> Vec<u8> {
    unsafe {
        if POS < QUEUE.len() {
            let v = QUEUE[POS].clone();
            POS += 1;
            if v.len() == n {
                return v;
            }
            eprintln!("vhrt: size mismatch at value {}: have {} bytes, want {}", POS - 1, v.len(), n);
            let mut w = v;
            w.resize(n, 0);
            return w;
        }
        UNDERRUN += 1;
        vec![0; n]
    }
}
pub fn assume(c: bool) {
    if !c {
        unsafe {
            ASSUME_FAILED = true;
        }
        eprintln!("vhrt: assumption violated by the concrete values");
        std::process::exit(3);
    }
}

pub trait Arbitrary: Sized {
    fn any() -> Self;
}
macro_rules! prim {
    ($($t:ty),*) => {$(
        impl Arbitrary for $t {
            fn any() -> Self {
                let b = next(std::mem::size_of::<$t>());
                let mut a = [0u8; std::mem::size_of::<$t>()];
                a.copy_from_slice(&b);
                <$t>::from_le_bytes(a)
            }
        }
    )*};
}
prim!(u8, u16, u32, u64, u128, usize, i8, i16, i32, i64, i128, isize, f32, f64);
impl Arbitrary for bool {
    fn any() -> Self {
        next(1)[0] & 1 == 1
    }
}
impl<T: Arbitrary, const N: usize> Arbitrary for [T; N] {
    fn any() -> Self {
        [(); N].map(|_| T::any())
    }
}
pub fn any<T: Arbitrary>() -> T {
    T::any()
}

// harnesses over /repo/src/table.rs  (C11-H2/H3, C12, C13-H2)
//
// The table is built directly (push of ClaimEntry / insert of CacheValue): one real operation per harness from an
// arbitrary small pre-state. `std::collections::HashMap` is the association-list shim (vstd), the clock is the repo's
// MockTimeSource. Owners come from a two-peer universe {P, Q}.
use crate::util::MockTimeSource;
use ::std::net::{Ipv4Addr, SocketAddrV4};

type Tab = ClaimTable<MockTimeSource>;

fn peer(q: bool) -> SocketAddr {
    if q {
        SocketAddr::V4(SocketAddrV4::new(Ipv4Addr::new(10, 0, 0, 2), 2002))
    } else {
        SocketAddr::V4(SocketAddrV4::new(Ipv4Addr::new(10, 0, 0, 1), 1001))
    }
}

fn addr(bytes: &[u8; 16], len: u8) -> Address {
    let mut d = [0u8; 16];
    let mut i = 0;
    while i < len as usize {
        d[i] = bytes[i];
        i += 1;
    }
    Address { data: d, len }
}

fn any_now() -> Time {
    let now: Time = kani::any();
    kani::assume(now >= 1 && now < (1 << 40));
    MockTimeSource::set_time(now);
    now
}

fn any_expiry(now: Time) -> Time {
    let t: Time = kani::any();
    kani::assume(t >= now && t < (1 << 41));
    t
}

// ===================================================================================================== C11-H2
/// lookup without a cached decision = owner of the matching claim with the greatest prefix length (first such in
/// announcement order), None iff no claim matches; the decision is cached until min(now + switch timeout, claim expiry)
fn lookup_longest_prefix(k: usize, alen: u8) {
    let now = any_now();
    let cache_timeout: u32 = kani::any();
    let claim_timeout: u32 = kani::any();
    let bases: [[u8; 16]; 3] = kani::any();
    let prefixes: [u8; 3] = kani::any();
    let owners: [bool; 3] = kani::any();
    let dest: [u8; 16] = kani::any();
    let mut exp = [0 as Time; 3];
    let mut t = Tab::new(cache_timeout, claim_timeout);
    let mut i = 0;
    while i < k {
        exp[i] = any_expiry(now);
        t.claims.push(ClaimEntry {
            peer: peer(owners[i]),
            claim: Range { base: addr(&bases[i], alen), prefix_len: prefixes[i] },
            timeout: exp[i],
        });
        i += 1;
    }
    let d = addr(&dest, alen);
    let got = t.lookup(d);
    // reference: scan with the separately decided Range::matches (C11-H1)
    let mut best: Option<usize> = None;
    let mut bestp: i32 = -1;
    let mut i = 0;
    while i < k {
        let r = Range { base: addr(&bases[i], alen), prefix_len: prefixes[i] };
        if r.matches(d) && (prefixes[i] as i32) > bestp {
            best = Some(i);
            bestp = prefixes[i] as i32;
        }
        i += 1;
    }
    match best {
        None => {
            assert!(got.is_none());
            assert!(t.cache.items.len() == 0);
        }
        Some(b) => {
            assert!(got == Some(peer(owners[b])));
            assert!(t.cache.items.len() == 1);
            assert!(t.cache.items[0].0 == d);
            assert!(t.cache.items[0].1.peer == peer(owners[b]));
            let lim = now + cache_timeout as Time;
            assert!(t.cache.items[0].1.timeout == if lim < exp[b] { lim } else { exp[b] });
        }
    }
    // the claims themselves are not touched by a lookup
    assert!(t.claims.len() == k);
    vcover!(best.is_some() && k >= 2 && best != Some(0), "later_more_specific_claim_wins");
    vcover!(best.is_none(), "no_claim_matches");
    witness!();
}
macro_rules! lookup_inst {
    ($($name:ident = ($k:expr, $alen:expr)),*) => {$(
        #[cfg_attr(kani, kani::proof, kani::unwind(20))]
        pub fn $name() {
            lookup_longest_prefix($k, $alen)
        }
    )*};
}
lookup_inst!(
    c11_lookup_k0_len4 = (0, 4), c11_lookup_k1_len4 = (1, 4), c11_lookup_k2_len1 = (2, 1), c11_lookup_k2_len4 = (2, 4),
    c11_lookup_k2_len6 = (2, 6), c11_lookup_k2_len16 = (2, 16), c11_lookup_k3_len1 = (3, 1), c11_lookup_k3_len4 = (3, 4),
    c11_lookup_k3_len8 = (3, 8)
);

/// a cached decision is returned as is (the cache is consulted before the claims) and is not refreshed by the lookup
#[cfg_attr(kani, kani::proof, kani::unwind(20))]
pub fn c11_lookup_prefers_cache() {
    let now = any_now();
    let cache_timeout: u32 = kani::any();
    let key: [u8; 16] = kani::any();
    let other: [u8; 16] = kani::any();
    let cached_owner: bool = kani::any();
    let claim_owner: bool = kani::any();
    let prefix: u8 = kani::any();
    let ct = any_expiry(now);
    let et = any_expiry(now);
    let mut t = Tab::new(cache_timeout, 300);
    let d = addr(&key, 4);
    t.cache.items.push((d, CacheValue { peer: peer(cached_owner), timeout: ct }));
    t.claims.push(ClaimEntry { peer: peer(claim_owner), claim: Range { base: addr(&other, 4), prefix_len: prefix }, timeout: et });
    let got = t.lookup(d);
    assert!(got == Some(peer(cached_owner)));
    assert!(t.cache.items.len() == 1 && t.cache.items[0].1.timeout == ct);
    witness!();
}

// ===================================================================================================== C11-H3 / C12-H3
/// the sweep keeps exactly the entries (claims and cached decisions) whose expiry is not in the past; afterwards a
/// swept decision is never returned
#[cfg_attr(kani, kani::proof, kani::unwind(20))]
pub fn c11_sweep_removes_exactly_expired() {
    let now = any_now();
    let keys: [[u8; 16]; 2] = kani::any();
    let cexp: [Time; 2] = kani::any();
    let eexp: [Time; 2] = kani::any();
    let owners: [bool; 4] = kani::any();
    let mut t = Tab::new(10, 300);
    let k0 = addr(&keys[0], 6);
    let k1 = addr(&keys[1], 6);
    kani::assume(k0 != k1);
    t.cache.items.push((k0, CacheValue { peer: peer(owners[0]), timeout: cexp[0] }));
    t.cache.items.push((k1, CacheValue { peer: peer(owners[1]), timeout: cexp[1] }));
    // claims that can never match a 6-byte destination (length 4): the lookups below only see the cache
    t.claims.push(ClaimEntry { peer: peer(owners[2]), claim: Range { base: addr(&keys[0], 4), prefix_len: 0 }, timeout: eexp[0] });
    t.claims.push(ClaimEntry { peer: peer(owners[3]), claim: Range { base: addr(&keys[1], 4), prefix_len: 0 }, timeout: eexp[1] });
    t.housekeep();
    let keep_c0 = cexp[0] >= now;
    let keep_c1 = cexp[1] >= now;
    let keep_e0 = eexp[0] >= now;
    let keep_e1 = eexp[1] >= now;
    assert!(t.cache.items.len() == keep_c0 as usize + keep_c1 as usize);
    assert!(t.claims.len() == keep_e0 as usize + keep_e1 as usize);
    if keep_c0 {
        assert!(t.cache.items[0].0 == k0 && t.cache.items[0].1.peer == peer(owners[0]) && t.cache.items[0].1.timeout == cexp[0]);
    }
    if keep_c1 {
        let i = keep_c0 as usize;
        assert!(t.cache.items[i].0 == k1 && t.cache.items[i].1.peer == peer(owners[1]) && t.cache.items[i].1.timeout == cexp[1]);
    }
    if keep_e0 {
        assert!(t.claims[0].timeout == eexp[0] && t.claims[0].peer == peer(owners[2]));
    }
    if keep_e1 {
        let i = keep_e0 as usize;
        assert!(t.claims[i].timeout == eexp[1] && t.claims[i].peer == peer(owners[3]));
    }
    vcover!(keep_c0 && !keep_c1 && !keep_e0 && keep_e1, "mixed");
    witness!();
}

/// after the sweep a decision whose expiry has passed is never returned by lookup (and one that has not, still is)
#[cfg_attr(kani, kani::proof, kani::unwind(20))]
pub fn c11_swept_decision_is_not_reused() {
    let now = any_now();
    let key: [u8; 16] = kani::any();
    let owner: bool = kani::any();
    let cexp: Time = kani::any();
    let mut t = Tab::new(10, 300);
    let k0 = addr(&key, 6);
    t.cache.items.push((k0, CacheValue { peer: peer(owner), timeout: cexp }));
    t.housekeep();
    let got = t.lookup(k0);
    assert!(got == if cexp >= now { Some(peer(owner)) } else { None });
    witness!();
}

// ===================================================================================================== C13-H2
/// learning: cache(addr, peer) makes that peer the only next hop for addr until now + switch timeout (last writer wins)
#[cfg_attr(kani, kani::proof, kani::unwind(20))]
pub fn c13_learn_last_writer_wins() {
    let now = any_now();
    let switch_timeout: u32 = kani::any();
    let key: [u8; 16] = kani::any();
    let first: bool = kani::any();
    let second: bool = kani::any();
    let later: Time = kani::any();
    kani::assume(later >= now && later < (1 << 40));
    let mut t = Tab::new(switch_timeout, 300);
    let a = addr(&key, 8);
    t.cache(a, peer(first));
    assert!(t.cache.items.len() == 1 && t.cache.items[0].1.timeout == now + switch_timeout as Time);
    MockTimeSource::set_time(later);
    t.cache(a, peer(second));
    assert!(t.cache.items.len() == 1);
    assert!(t.cache.items[0].1.peer == peer(second));
    assert!(t.cache.items[0].1.timeout == later + switch_timeout as Time);
    assert!(t.lookup(a) == Some(peer(second)));
    witness!();
}

/// a learned entry of a disconnected peer is gone after remove_claims; entries of other peers stay (C12-H2, C13-H2)
fn remove_claims_step(k: usize) {
    let now = any_now();
    let keys: [[u8; 16]; 2] = kani::any();
    let cown: [bool; 2] = kani::any();
    let bases: [u8; 3] = kani::any();
    let prefixes: [u8; 3] = kani::any();
    let owners: [bool; 3] = kani::any();
    let gone: bool = kani::any();
    let mut t = Tab::new(10, 300);
    let k0 = addr(&keys[0], 6);
    let k1 = addr(&keys[1], 6);
    kani::assume(k0 != k1);
    let c0 = any_expiry(now);
    let c1 = any_expiry(now);
    t.cache.items.push((k0, CacheValue { peer: peer(cown[0]), timeout: c0 }));
    t.cache.items.push((k1, CacheValue { peer: peer(cown[1]), timeout: c1 }));
    let mut exp = [0 as Time; 3];
    let mut i = 0;
    while i < k {
        exp[i] = any_expiry(now);
        let mut b = [0u8; 16];
        b[0] = bases[i];
        t.claims.push(ClaimEntry { peer: peer(owners[i]), claim: Range { base: addr(&b, 1), prefix_len: prefixes[i] }, timeout: exp[i] });
        i += 1;
    }
    t.remove_claims(peer(gone));
    // nothing names the removed peer any more
    let mut i = 0;
    while i < t.claims.len() {
        assert!(t.claims[i].peer != peer(gone));
        i += 1;
    }
    let mut i = 0;
    while i < t.cache.items.len() {
        assert!(t.cache.items[i].1.peer != peer(gone));
        i += 1;
    }
    // everything of the other peer is still there, unchanged and in order
    let mut others = 0;
    let mut i = 0;
    while i < k {
        if owners[i] != gone {
            assert!(t.claims[others].peer == peer(!gone) && t.claims[others].timeout == exp[i]);
            assert!(t.claims[others].claim.prefix_len == prefixes[i] && t.claims[others].claim.base.data[0] == bases[i]);
            others += 1;
        }
        i += 1;
    }
    assert!(t.claims.len() == others);
    assert!(t.cache.items.len() == (cown[0] != gone) as usize + (cown[1] != gone) as usize);
    witness!();
}
macro_rules! remove_inst {
    ($($name:ident = $k:expr),*) => {$(
        #[cfg_attr(kani, kani::proof, kani::unwind(20))]
        pub fn $name() {
            remove_claims_step($k)
        }
    )*};
}
remove_inst!(c12_remove_claims_k0 = 0, c12_remove_claims_k1 = 1, c12_remove_claims_k2 = 2, c12_remove_claims_k3 = 3);

// ===================================================================================================== C12-H1
/// set_claims(P, announcement): afterwards the ranges attributed to P are exactly the announced ones (each with expiry
/// now + peer timeout), the other peer's claims and cached decisions are untouched, and if a claim of P disappeared
/// every decision cached for P is gone. Pre-state: k claims over owners {P, Q} without duplicate (owner, range) pairs,
/// one cached decision per owner; announcement of m ranges (duplicates allowed).
fn set_claims_step(k: usize, m: usize) {
    let now = any_now();
    let claim_timeout: u32 = kani::any();
    let bases: [u8; 3] = kani::any();
    let prefixes: [u8; 3] = kani::any();
    let owners: [bool; 3] = kani::any();
    let abases: [u8; 2] = kani::any();
    let aprefixes: [u8; 2] = kani::any();
    // the announcing peer is P (the two peers are interchangeable: the code only compares addresses for equality)
    let who = false;
    let keys: [[u8; 16]; 2] = kani::any();
    let mut t = Tab::new(10, claim_timeout);
    let mk = |b: u8, p: u8| {
        let mut d = [0u8; 16];
        d[0] = b;
        Range { base: Address { data: d, len: 1 }, prefix_len: p }
    };
    let mut exp = [0 as Time; 3];
    let mut i = 0;
    while i < k {
        exp[i] = any_expiry(now);
        t.claims.push(ClaimEntry { peer: peer(owners[i]), claim: mk(bases[i], prefixes[i]), timeout: exp[i] });
        // no duplicate (owner, range) pairs in the pre-state
        let mut j = 0;
        while j < i {
            kani::assume(!(owners[j] == owners[i] && bases[j] == bases[i] && prefixes[j] == prefixes[i]));
            j += 1;
        }
        i += 1;
    }
    let k0 = addr(&keys[0], 6);
    let k1 = addr(&keys[1], 6);
    kani::assume(k0 != k1);
    let c0 = any_expiry(now);
    let c1 = any_expiry(now);
    t.cache.items.push((k0, CacheValue { peer: peer(who), timeout: c0 }));
    t.cache.items.push((k1, CacheValue { peer: peer(!who), timeout: c1 }));
    let mut ann: RangeList = smallvec::SmallVec::new();
    let mut i = 0;
    while i < m {
        ann.push(mk(abases[i], aprefixes[i]));
        i += 1;
    }
    let announced = |b: u8, p: u8| {
        let mut f = false;
        let mut i = 0;
        while i < m {
            if abases[i] == b && aprefixes[i] == p {
                f = true;
            }
            i += 1;
        }
        f
    };
    t.set_claims(peer(who), ann);
    let fresh = now + claim_timeout as Time;
    // all loops below have the concrete bound k + m (the table cannot hold more afterwards)
    let cap = k + m;
    let n = t.claims.len();
    assert!(n <= cap);
    // (1) every announced range is attributed to the announcing peer, with a fresh expiry
    let mut i = 0;
    while i < m {
        let mut found = false;
        let mut j = 0;
        while j < cap {
            if j < n {
                let e = &t.claims[j];
                if e.peer == peer(who) && e.claim.base.data[0] == abases[i] && e.claim.prefix_len == aprefixes[i] && e.timeout == fresh {
                    found = true;
                }
            }
            j += 1;
        }
        assert!(found);
        i += 1;
    }
    // (2) nothing else is attributed to it: dropped claims disappear at once
    let mut others_after = 0;
    let mut j = 0;
    while j < cap {
        if j < n {
            let e = &t.claims[j];
            if e.peer == peer(who) {
                assert!(announced(e.claim.base.data[0], e.claim.prefix_len));
            } else {
                others_after += 1;
            }
        }
        j += 1;
    }
    // (3) the other peer's claims are untouched, in order: the i-th pre-entry of the other peer is the i-th
    //     post-entry of the other peer
    let mut seen = 0;
    let mut removed_one = false;
    let mut i = 0;
    while i < k {
        if owners[i] != who {
            let mut cnt = 0;
            let mut j = 0;
            while j < cap {
                if j < n && t.claims[j].peer == peer(!who) {
                    if cnt == seen {
                        let e = &t.claims[j];
                        assert!(e.timeout == exp[i] && e.claim.base.data[0] == bases[i] && e.claim.prefix_len == prefixes[i]);
                    }
                    cnt += 1;
                }
                j += 1;
            }
            seen += 1;
        } else if !announced(bases[i], prefixes[i]) {
            removed_one = true;
        }
        i += 1;
    }
    assert!(others_after == seen);
    // (4) decisions cached from the announcing peer go away together with a dropped claim; the other peer's stay
    let nc = t.cache.items.len();
    assert!(nc <= 2);
    let mut has_own = false;
    let mut has_other = false;
    let mut j = 0;
    while j < 2 {
        if j < nc {
            if t.cache.items[j].1.peer == peer(who) {
                has_own = true;
            } else {
                has_other = true;
            }
        }
        j += 1;
    }
    assert!(has_other);
    assert!(has_own == !removed_one);
    vcover!(removed_one, "a_claim_was_dropped");
    vcover!(m == 1 && k >= 2 && owners[0] == who && owners[1] == who && announced(bases[0], prefixes[0]) && !announced(bases[1], prefixes[1]), "shrink_keeps_first_drops_second");
    witness!();
}
macro_rules! set_inst {
    ($($name:ident = ($k:expr, $m:expr)),*) => {$(
        #[cfg_attr(kani, kani::proof, kani::unwind(7))]
        pub fn $name() {
            set_claims_step($k, $m)
        }
    )*};
}
set_inst!(
    c12_set_claims_k0_m0 = (0, 0), c12_set_claims_k0_m1 = (0, 1), c12_set_claims_k0_m2 = (0, 2),
    c12_set_claims_k1_m0 = (1, 0), c12_set_claims_k1_m1 = (1, 1), c12_set_claims_k1_m2 = (1, 2),
    c12_set_claims_k2_m0 = (2, 0), c12_set_claims_k2_m1 = (2, 1), c12_set_claims_k2_m2 = (2, 2),
    c12_set_claims_k3_m1 = (3, 1), c12_set_claims_k3_m2 = (3, 2)
);


// harnesses over /repo/src/crypto/core.rs  (C02, C03, C04, C08)
//
// Conventions (DESIGN 2.4): shapes (slot index, lengths, offsets) are concrete per harness instance, data is symbolic;
// every harness ends in witness!(); all symbolic inputs are drawn first, in a fixed order, so that a counterexample's
// concrete values can be read back by position.
use crate::vh_common::{nonce_val, okf};

const M96: u128 = 1u128 << 96;

fn any_nonce() -> Nonce {
    Nonce(kani::any())
}

fn free_slot(algo: &'static aead::Algorithm) -> CryptoKey {
    CryptoKey {
        key: LessSafeKey::model_free(algo),
        send_nonce: Nonce::zero(),
        min_nonce: Nonce::zero(),
        next_min_nonce: Nonce::zero(),
        seen_nonce: Nonce::zero(),
    }
}

fn keyed_slot(algo: &'static aead::Algorithm, bytes: &[u8; 32]) -> CryptoKey {
    CryptoKey {
        key: LessSafeKey::new(UnboundKey::new(algo, &bytes[..algo.key_len()]).unwrap()),
        send_nonce: Nonce::zero(),
        min_nonce: Nonce::zero(),
        next_min_nonce: Nonce::zero(),
        seen_nonce: Nonce::zero(),
    }
}

fn algo_of(i: u8) -> &'static aead::Algorithm {
    match i {
        0 => &aead::AES_128_GCM,
        1 => &aead::AES_256_GCM,
        _ => &aead::CHACHA20_POLY1305,
    }
}

/// connection core as an outsider faces it: four real (non-free) model keys and an empty seal log, so no datagram opens
pub fn outsider_core() -> CryptoCore {
    core_with(&aead::AES_256_GCM, &[0x44; 32], false, 0)
}

pub fn sending_slot(core: &CryptoCore) -> usize {
    core.current_key
}
pub fn slot_key_bytes(core: &CryptoCore, slot: usize) -> [u8; 32] {
    *core.keys[slot].key.model_key_bytes()
}
pub fn half_of(core: &CryptoCore) -> bool {
    core.nonce_half
}
pub fn set_seen(core: &mut CryptoCore, slot: usize, seen: [u8; 12]) {
    core.keys[slot].seen_nonce = Nonce(seen);
}
pub fn next_min(core: &CryptoCore, slot: usize) -> u128 {
    nonce_val(core.keys[slot].next_min_nonce.as_bytes())
}

/// a core whose four slots hold independent model keys; `keyed` is the slot that gets `bytes`
fn core_with(algo: &'static aead::Algorithm, bytes: &[u8; 32], half: bool, current: usize) -> CryptoCore {
    let other = [0x11u8; 32];
    CryptoCore {
        rand: SystemRandom::new(),
        keys: [keyed_slot(algo, bytes), keyed_slot(algo, &other), keyed_slot(algo, &other), keyed_slot(algo, &other)],
        current_key: current,
        nonce_half: half,
    }
}

// =====================================================================================================  C04
// ---------------------------------------------------------------- C04-H1
/// Nonce::increment is +1 modulo 2^96 for every value (all byte-carry patterns are inside the symbolic value)
#[cfg_attr(kani, kani::proof, kani::unwind(13))]
pub fn c04_increment_is_plus_one() {
    let mut n = any_nonce();
    let before = nonce_val(n.as_bytes());
    n.increment();
    let after = nonce_val(n.as_bytes());
    assert!(after == (before + 1) % M96);
    witness!();
}

/// seal: the slot's send nonce is incremented first and exactly that value is handed to the AEAD and written
/// (low 7 bytes) into the header, together with the slot id; window arithmetic of the envelope (C02-H1)
fn seal_uses_fresh_nonce(slot: usize, n: usize, space: usize) {
    let nonce0 = any_nonce();
    let keyb: [u8; 32] = kani::any();
    let payload: [u8; 16] = kani::any();
    let half: bool = kani::any();
    let mut core = core_with(&aead::CHACHA20_POLY1305, &[0x22; 32], half, slot);
    core.keys[slot] = keyed_slot(&aead::CHACHA20_POLY1305, &keyb);
    core.keys[slot].send_nonce = nonce0.clone();
    let mut buf = MsgBuffer::new(space);
    buf.set_length(n);
    if n <= 16 {
        buf.message_mut().copy_from_slice(&payload[..n]);
    }
    core.encrypt(&mut buf);
    let expect = (nonce_val(nonce0.as_bytes()) + 1) % M96;
    // the counter advanced by exactly one
    assert!(nonce_val(core.keys[slot].send_nonce.as_bytes()) == expect);
    // window arithmetic
    assert!(buf.get_start() == space - EXTRA_LEN);
    assert!(buf.len() == n + EXTRA_LEN + TAG_LEN);
    // exactly one seal, with the incremented nonce and this slot's key, over exactly the payload
    assert!(aead::model_seal_count() == 1);
    let rec = aead::model_seal_record(0);
    assert!(nonce_val(&rec.nonce) == expect);
    assert!(rec.len == n);
    assert!(rec.aad_len == 0);
    let m = buf.message();
    assert!(m[0] as usize == slot);
    let nb = core.keys[slot].send_nonce.as_bytes();
    assert!(m[1] == nb[5] && m[2] == nb[6] && m[3] == nb[7] && m[4] == nb[8]);
    assert!(m[5] == nb[9] && m[6] == nb[10] && m[7] == nb[11]);
    // the tag produced by the AEAD sits behind the ciphertext
    let t = &m[EXTRA_LEN + n..];
    let mut t0 = [0u8; 8];
    t0.copy_from_slice(&t[0..8]);
    let mut t1 = [0u8; 8];
    t1.copy_from_slice(&t[8..16]);
    assert!(u64::from_le_bytes(t0) == rec.tag[0] && u64::from_le_bytes(t1) == rec.tag[1]);
    // other slots untouched
    let o = (slot + 1) % 4;
    assert!(nonce_val(core.keys[o].send_nonce.as_bytes()) == 0);
    witness!();
}

macro_rules! seal_inst {
    ($name:ident, $slot:expr, $n:expr, $space:expr) => {
        #[cfg_attr(kani, kani::proof, kani::unwind(34))]
        pub fn $name() {
            seal_uses_fresh_nonce($slot, $n, $space)
        }
    };
}
seal_inst!(c04_seal_fresh_nonce_s0_n4, 0, 4, 8);
seal_inst!(c04_seal_fresh_nonce_s1_n0, 1, 0, 8);
seal_inst!(c04_seal_fresh_nonce_s2_n16, 2, 16, 100);
seal_inst!(c04_seal_fresh_nonce_s3_n1, 3, 1, 8);
seal_inst!(c04_seal_fresh_nonce_s0_n1000, 0, 1000, 100);
seal_inst!(c04_seal_fresh_nonce_s1_n9000, 1, 9000, 100);
seal_inst!(c04_seal_fresh_nonce_s2_n65400, 2, 65400, 100);

/// Receiver side of one datagram. The datagram is laid out exactly as `encrypt` is shown to lay it out by
/// c04_seal_fresh_nonce_* (slot id, low 7 bytes of the sender's 96-bit counter, ciphertext, tag) and sealed by the
/// ideal AEAD under an ARBITRARY 96-bit sender counter; then one real `decrypt` runs.
///   mode 0      : the adversary rewrites the key-id byte: cut = 0: to any value outside 0..=3; cut = k: to slot+k mod 4
///   mode 1..=7  : the adversary rewrites counter byte `mode` of the header to any value
///   mode 8 / 9  : rewrites ciphertext / tag byte number `cut`;   mode 10: delivers it untouched
///   mode 11     : untouched, but the receiver's slot holds other key material (datagram of another connection)
///   mode 12     : truncated by `cut` bytes
/// Decided: accepted  <=>  untouched, same key, counter fits the 56 transmitted bits (C04: an overflowing counter is
/// undecryptable, never wrapped), and the sender's half is the opposite of the receiver's (C02: a reflected datagram
/// is dropped); on acceptance the window is the payload, byte-identical, and `seen` is the sender's counter.
fn recv_datagram(mode: usize, slot: usize, n: usize, cut: usize, precise: bool) {
    let nonce = any_nonce();
    let keyb: [u8; 32] = kani::any();
    let otherkey: [u8; 32] = kani::any();
    let payload: [u8; 8] = kani::any();
    let recv_half: bool = kani::any();
    let newbyte: u8 = kani::any();
    let pos: u8 = kani::any();
    // the connection's key differs from what the receiver's other three slots hold (their first bytes are 0x33/0x11);
    // otherwise pointing the key id at such a slot is not an alteration the AEAD could notice
    kani::assume(keyb[0] != 0x11 && keyb[0] != 0x33);
    let algo = &aead::AES_256_GCM;
    let sealer = keyed_slot(algo, &keyb);
    let mut receiver = core_with(algo, &[0x33; 32], recv_half, 0);
    let mut keys_differ = false;
    if mode == 11 {
        let mut i = 0;
        while i < 32 {
            if keyb[i] != otherkey[i] {
                keys_differ = true;
            }
            i += 1;
        }
        receiver.keys[slot] = keyed_slot(algo, &otherkey);
    } else {
        receiver.keys[slot] = keyed_slot(algo, &keyb);
    }
    // key-id rewrite: either any value outside 0..=3 (symbolic), or one concrete other slot id - a symbolic slot index
    // would make CBMC havoc byte-level reads through `&mut self.keys[key_id]` (see engine note below)
    let newbyte = if mode != 0 {
        newbyte
    } else if cut == 0 {
        kani::assume(newbyte > 3);
        newbyte
    } else {
        ((slot + cut) % 4) as u8
    };
    let mut changed = false;
    // header as the sender wrote it, then as the adversary rewrote it (the header does not enter the seal, so the
    // rewrite is applied while assembling the datagram: writes into the big buffer after the seal defeat symex's
    // constant folding of the key-id byte)
    let mut hdr = [0u8; 8];
    hdr[0] = slot as u8;
    hdr[1..8].copy_from_slice(&nonce.as_bytes()[5..]);
    if mode <= 7 {
        changed = hdr[mode] != newbyte;
        hdr[mode] = newbyte;
    }
    let mut buf = MsgBuffer::new(100);
    buf.set_length(EXTRA_LEN + n + TAG_LEN);
    {
        let m = buf.message_mut();
        if mode == 0 && cut != 0 {
            m[0] = ((slot + cut) % 4) as u8;
        } else if mode == 0 {
            m[0] = hdr[0];
        } else {
            m[0] = slot as u8;
        }
        m[1..8].copy_from_slice(&hdr[1..]);
        m[8..8 + n].copy_from_slice(&payload[..n]);
        let tag = {
            let (d, _) = m[8..].split_at_mut(n);
            sealer.key.seal_in_place_separate_tag(aead::Nonce::assume_unique_for_key(*nonce.as_bytes()), aead::Aad::empty(), d).unwrap()
        };
        m[8 + n..].copy_from_slice(tag.as_ref());
    }
    if mode == 8 || mode == 9 {
        let idx = if mode == 8 { 8 + cut } else { 8 + n + cut };
        let old = buf.message()[idx];
        buf.message_mut()[idx] = newbyte;
        changed = newbyte != old;
    }
    if mode == 12 {
        let l = buf.len();
        buf.set_length(l - cut);
        changed = true;
    }
    let res = okf(receiver.decrypt(&mut buf));
    let nb = nonce.as_bytes();
    let fits = nb[1] == 0 && nb[2] == 0 && nb[3] == 0 && nb[4] == 0;
    let msb_ok = nb[0] == if recv_half { 0x00 } else { 0x80 };
    let same_key = mode != 11 || !keys_differ;
    let expect_ok = !changed && same_key && fits && msb_ok;
    if precise && (mode <= 7 || mode == 10) {
        // decided in both directions: accepted iff nothing was altered, the counter fits and the halves are opposite
        assert!(res.is_some() == expect_ok);
    } else if !expect_ok {
        // Engine note (DESIGN 2.4b): symex does not fold the key-id byte read back from the 64 KiB buffer, so
        // `&mut self.keys[key_id]` is a symbolic-offset pointer. For element 0 CBMC 6.11 resolves reads through it
        // exactly; for elements 1..3 it havocs them (an over-approximation that only adds behaviours), unless the
        // buffer is made field sensitive (`--max-field-sensitivity-array-size 65536`, ~500 s: the *_fs instances of the
        // thorough tier). Without that only this direction - the property's "is dropped" - is asserted.
        assert!(res.is_none());
    }
    if res.is_some() && (precise || expect_ok) {
        assert!(buf.get_start() == 100 + EXTRA_LEN && buf.len() == n);
        let m = buf.message();
        let mut i = 0;
        while i < n {
            assert!(m[i] == payload[i]);
            i += 1;
        }
        if precise {
            assert!(nonce_val(receiver.keys[slot].seen_nonce.as_bytes()) == nonce_val(nb));
        }
    }
    if res.is_none() && (precise || slot == 0) {
        let mut i = 0;
        while i < 4 {
            assert!(nonce_val(receiver.keys[i].seen_nonce.as_bytes()) == 0);
            i += 1;
        }
    }
    vcover!(res.is_some(), "accepted");
    vcover!(res.is_none() && !changed && same_key && !fits, "overflowing_counter_rejected");
    vcover!(res.is_none() && !changed && same_key && fits && !msb_ok, "reflected_or_same_half_rejected");
    witness!();
}
macro_rules! recv_inst {
    ($($name:ident = ($mode:expr, $slot:expr, $n:expr, $cut:expr, $precise:expr)),*) => {$(
        #[cfg_attr(kani, kani::proof, kani::unwind(34))]
        pub fn $name() {
            recv_datagram($mode, $slot, $n, $cut, $precise)
        }
    )*};
}
recv_inst!(
    // slot 0: exact in both directions
    c02_recv_genuine_s0_n4 = (10, 0, 4, 0, true), c02_recv_genuine_s0_n0 = (10, 0, 0, 0, true), c02_recv_genuine_s0_n8 = (10, 0, 8, 0, true),
    c02_recv_tamper_keyid_s0 = (0, 0, 4, 0, true),
    c02_recv_tamper_keyid_s0_to1 = (0, 0, 4, 1, false), c02_recv_tamper_keyid_s0_to2 = (0, 0, 4, 2, false),
    c02_recv_tamper_keyid_s0_to3 = (0, 0, 4, 3, false),
    c02_recv_tamper_ctr1 = (1, 0, 4, 0, true), c02_recv_tamper_ctr2 = (2, 0, 4, 0, true), c02_recv_tamper_ctr3 = (3, 0, 4, 0, true),
    c02_recv_tamper_ctr4 = (4, 0, 4, 0, true), c02_recv_tamper_ctr5 = (5, 0, 4, 0, true), c02_recv_tamper_ctr6 = (6, 0, 4, 0, true),
    c02_recv_tamper_ctr7 = (7, 0, 4, 0, true),
    c02_recv_tamper_ct0 = (8, 0, 4, 0, false), c02_recv_tamper_ct3 = (8, 0, 4, 3, false),
    c02_recv_tamper_tag0 = (9, 0, 4, 0, false), c02_recv_tamper_tag15 = (9, 0, 4, 15, false),
    c02_recv_other_connection = (11, 0, 4, 0, false),
    c02_recv_truncated_n8_cut1 = (12, 0, 8, 1, false), c02_recv_truncated_n8_cut8 = (12, 0, 8, 8, false),
    c02_recv_truncated_n4_cut3 = (12, 0, 4, 3, false), c02_recv_truncated_n4_cut5 = (12, 0, 4, 5, false),
    c02_recv_truncated_n8_cut24 = (12, 0, 8, 24, false),
    // slots 1..3: "is dropped" direction only (engine note in recv_datagram)
    c02_recv_genuine_s1_n1 = (10, 1, 1, 0, false), c02_recv_genuine_s2_n8 = (10, 2, 8, 0, false), c02_recv_genuine_s3_n2 = (10, 3, 2, 0, false),
    c02_recv_tamper_keyid_s3 = (0, 3, 4, 0, false), c02_recv_tamper_keyid_s2_to3 = (0, 2, 4, 1, false),
    c02_recv_tamper_ctr1_s1 = (1, 1, 4, 0, false), c02_recv_tamper_ctr7_s3 = (7, 3, 4, 0, false),
    c02_recv_tamper_tag15_s2 = (9, 2, 4, 15, false),
    // slots 1..3 exact, with the message buffer made field sensitive (thorough tier, ~500 s each)
    c02_recv_genuine_s1_n1_fs = (10, 1, 1, 0, true), c02_recv_genuine_s2_n8_fs = (10, 2, 8, 0, true), c02_recv_genuine_s3_n2_fs = (10, 3, 2, 0, true),
    c02_recv_tamper_ctr1_s1_fs = (1, 1, 4, 0, true)
);

/// a freshly created slot starts in the requested half, with bytes 1..6 zero and an unconstrained (random) tail,
/// and with an all-zero replay window
#[cfg_attr(kani, kani::proof, kani::unwind(34))]
pub fn c04_new_slot_half_and_start() {
    let half: bool = kani::any();
    let rand = SystemRandom::new();
    let k = CryptoKey::new(&rand, LessSafeKey::model_free(&aead::AES_128_GCM), half);
    let b = k.send_nonce.as_bytes();
    assert!(b[0] == if half { 0x80 } else { 0x00 });
    assert!(b[1] == 0 && b[2] == 0 && b[3] == 0 && b[4] == 0 && b[5] == 0);
    assert!(nonce_val(k.min_nonce.as_bytes()) == 0);
    assert!(nonce_val(k.next_min_nonce.as_bytes()) == 0);
    assert!(nonce_val(k.seen_nonce.as_bytes()) == 0);
    // the start value is not pinned: two different tails are possible (unpredictability is the RNG's, trusted)
    vcover!(b[11] == 0x5a && b[6] == 0xc3, "random_tail_a");
    vcover!(b[11] == 0x00 && b[6] == 0xff, "random_tail_b");
    witness!();
}

/// rotate_key installs the key in slot id mod 4, in the core's own half, with a fresh window, and switches the
/// sending slot only when asked to
fn rotate_installs(r: u64, use_for_sending: bool) {
    let k: u32 = kani::any();
    let half: bool = kani::any();
    let keyb: [u8; 32] = kani::any();
    let old_seen = any_nonce();
    let id = r + 4 * (k as u64);
    let cur0 = ((r + 1) % 4) as usize;
    let mut core = core_with(&aead::AES_256_GCM, &[0x22; 32], half, cur0);
    core.keys[r as usize].seen_nonce = old_seen;
    let newkey = LessSafeKey::new(UnboundKey::new(&aead::AES_256_GCM, &keyb).unwrap());
    core.rotate_key(newkey, id, use_for_sending);
    let s = &core.keys[r as usize];
    let kb = s.key.model_key_bytes();
    let mut i = 0;
    while i < 32 {
        assert!(kb[i] == keyb[i]);
        i += 1;
    }
    let b = s.send_nonce.as_bytes();
    assert!(b[0] == if half { 0x80 } else { 0x00 });
    assert!(b[1] == 0 && b[2] == 0 && b[3] == 0 && b[4] == 0 && b[5] == 0);
    assert!(nonce_val(s.seen_nonce.as_bytes()) == 0 && nonce_val(s.min_nonce.as_bytes()) == 0);
    assert!(core.current_key == if use_for_sending { r as usize } else { cur0 });
    assert!(core.nonce_half == half);
    // the other three slots keep their keys
    let o = ((r + 2) % 4) as usize;
    assert!(core.keys[o].key.model_key_bytes()[0] == if o == 0 { 0x22 } else { 0x11 });
    witness!();
}
macro_rules! rotate_inst {
    ($name:ident, $r:expr, $u:expr) => {
        #[cfg_attr(kani, kani::proof, kani::unwind(34))]
        pub fn $name() {
            rotate_installs($r, $u)
        }
    };
}
rotate_inst!(c04_rotate_slot0_send, 0, true);
rotate_inst!(c04_rotate_slot1_recv, 1, false);
rotate_inst!(c04_rotate_slot2_send, 2, true);
rotate_inst!(c04_rotate_slot3_recv, 3, false);

/// the role decision `own_hash > peer_hash` is antisymmetric on distinct 20-byte hashes, so exactly one end
/// takes the upper half (the comparison operator on the real SaltedNodeIdHash type = [u8; 20])
#[cfg_attr(kani, kani::proof, kani::unwind(22))]
pub fn c04_half_decision_antisymmetric() {
    let a: [u8; 20] = kani::any();
    let b: [u8; 20] = kani::any();
    let mut differ = false;
    let mut i = 0;
    while i < 20 {
        if a[i] != b[i] {
            differ = true;
        }
        i += 1;
    }
    if differ {
        assert!((a > b) != (b > a));
    } else {
        assert!(!(a > b) && !(b > a));
    }
    witness!();
}

// =====================================================================================================  C03
// ---------------------------------------------------------------- C03-H1
/// one delivery against an arbitrary window state and an arbitrary AEAD verdict
#[cfg_attr(kani, kani::proof, kani::unwind(34))]
pub fn c03_window_step() {
    let min0 = any_nonce();
    let next0 = any_nonce();
    let seen0 = any_nonce();
    let send0 = any_nonce();
    let nonce = any_nonce();
    let mut data: [u8; 20] = kani::any();
    let mut k = free_slot(&aead::AES_128_GCM);
    k.min_nonce = min0.clone();
    k.next_min_nonce = next0.clone();
    k.seen_nonce = seen0.clone();
    k.send_nonce = send0.clone();
    let calls0 = aead::model_open_calls();
    let res = okf(CryptoCore::decrypt_with_key(&mut k, nonce.clone(), &mut data));
    let (vmin, vnext, vseen, vn) =
        (nonce_val(min0.as_bytes()), nonce_val(next0.as_bytes()), nonce_val(seen0.as_bytes()), nonce_val(nonce.as_bytes()));
    let seen1 = nonce_val(k.seen_nonce.as_bytes());
    // thresholds and the send counter never move on a delivery
    assert!(nonce_val(k.min_nonce.as_bytes()) == vmin);
    assert!(nonce_val(k.next_min_nonce.as_bytes()) == vnext);
    assert!(nonce_val(k.send_nonce.as_bytes()) == nonce_val(send0.as_bytes()));
    if res.is_some() {
        assert!(vn >= vmin);
        assert!(seen1 == if vn > vseen { vn } else { vseen });
    } else {
        assert!(seen1 == vseen);
    }
    // below the threshold the AEAD is not even consulted; at or above it, it always is (so the verdict decides)
    let calls = aead::model_open_calls() - calls0;
    assert!(calls == if vn < vmin { 0 } else { 1 });
    if vn < vmin {
        assert!(res.is_none());
    }
    vcover!(res.is_some() && vn > vseen, "accept_newer");
    vcover!(res.is_some() && vn < vseen, "accept_reordered");
    vcover!(res.is_none() && vn >= vmin, "reject_bad_tag");
    witness!();
}

/// a genuinely sealed datagram is accepted iff its counter is not below the threshold in force
#[cfg_attr(kani, kani::proof, kani::unwind(34))]
pub fn c03_valid_datagram_accepted_iff_in_window() {
    let min0 = any_nonce();
    let seen0 = any_nonce();
    let nonce = any_nonce();
    let keyb: [u8; 32] = kani::any();
    let payload: [u8; 4] = kani::any();
    let sealer = keyed_slot(&aead::CHACHA20_POLY1305, &keyb);
    let mut k = keyed_slot(&aead::CHACHA20_POLY1305, &keyb);
    k.min_nonce = min0.clone();
    k.seen_nonce = seen0.clone();
    let mut data = [0u8; 20];
    data[..4].copy_from_slice(&payload);
    let tag = {
        let (d, _) = data.split_at_mut(4);
        sealer.key.seal_in_place_separate_tag(aead::Nonce::assume_unique_for_key(*nonce.as_bytes()), aead::Aad::empty(), d).unwrap()
    };
    data[4..].copy_from_slice(tag.as_ref());
    let res = okf(CryptoCore::decrypt_with_key(&mut k, nonce.clone(), &mut data));
    let (vmin, vn) = (nonce_val(min0.as_bytes()), nonce_val(nonce.as_bytes()));
    assert!(res.is_some() == (vn >= vmin));
    if res.is_some() {
        assert!(data[0] == payload[0] && data[1] == payload[1] && data[2] == payload[2] && data[3] == payload[3]);
    }
    vcover!(res.is_some(), "accepted");
    vcover!(res.is_none(), "rejected_old");
    witness!();
}

// ---------------------------------------------------------------- C03-H2
/// one housekeeping tick on one key slot: min' = next_min, next_min' = seen + 1, seen' = seen
#[cfg_attr(kani, kani::proof, kani::unwind(13))]
pub fn c03_tick_step() {
    let send = any_nonce();
    let min = any_nonce();
    let next = any_nonce();
    let seen = any_nonce();
    let mut k = free_slot(&aead::AES_128_GCM);
    k.send_nonce = send.clone();
    k.min_nonce = min.clone();
    k.next_min_nonce = next.clone();
    k.seen_nonce = seen.clone();
    let (send0, next0, seen0) = (nonce_val(send.as_bytes()), nonce_val(next.as_bytes()), nonce_val(seen.as_bytes()));
    kani::assume(seen0 < M96 - 1);
    k.update_min_nonce();
    assert!(nonce_val(k.min_nonce.as_bytes()) == next0);
    assert!(nonce_val(k.next_min_nonce.as_bytes()) == seen0 + 1);
    assert!(nonce_val(k.seen_nonce.as_bytes()) == seen0);
    assert!(nonce_val(k.send_nonce.as_bytes()) == send0);
    witness!();
}

// ---------------------------------------------------------------- C03-H3
/// The property itself as an inductive step. Ghosts (value+1 convention, 0 = none):
///   a_prev = 1 + greatest counter accepted before the tick preceding the most recent tick
///   a_last = 1 + greatest counter accepted before the most recent tick
///   a_all  = 1 + greatest counter accepted ever
/// Invariant  I: min <= next_min <= seen+1,  a_prev <= min, a_last <= next_min, a_all <= seen+1, a_prev<=a_last<=a_all.
/// It holds initially (all zero) and for a freshly rotated slot; one real operation (delivery with an arbitrary
/// AEAD verdict, or tick) preserves it, an accepted counter is >= a_prev (i.e. higher than everything accepted
/// before the tick preceding the last one) and anything above `seen` is inside the window.
#[cfg_attr(kani, kani::proof, kani::unwind(34))]
pub fn c03_history_invariant_step() {
    let min = any_nonce();
    let next = any_nonce();
    let seen = any_nonce();
    let nonce = any_nonce();
    let a_prev: u128 = kani::any();
    let a_last: u128 = kani::any();
    let a_all: u128 = kani::any();
    let do_tick: bool = kani::any();
    let mut data: [u8; 18] = kani::any();
    let (vmin, vnext, vseen, vn) =
        (nonce_val(min.as_bytes()), nonce_val(next.as_bytes()), nonce_val(seen.as_bytes()), nonce_val(nonce.as_bytes()));
    kani::assume(vseen < M96 - 1);
    kani::assume(vmin <= vnext && vnext <= vseen + 1);
    kani::assume(a_prev <= a_last && a_last <= a_all);
    kani::assume(a_prev <= vmin && a_last <= vnext && a_all <= vseen + 1);
    let mut k = free_slot(&aead::AES_256_GCM);
    k.min_nonce = min;
    k.next_min_nonce = next;
    k.seen_nonce = seen;
    let (mut g_prev, mut g_last, mut g_all) = (a_prev, a_last, a_all);
    if do_tick {
        k.update_min_nonce();
        g_prev = g_last;
        g_last = g_all;
    } else {
        let res = okf(CryptoCore::decrypt_with_key(&mut k, nonce, &mut data));
        if res.is_some() {
            // safety: higher than every counter accepted before the tick preceding the most recent tick
            assert!(vn + 1 > a_prev);
            if vn + 1 > g_all {
                g_all = vn + 1;
            }
        }
        // liveness side: anything newer than everything seen is inside the window (the verdict alone decides)
        if vn > vseen {
            assert!(vn >= vmin);
        }
    }
    let (m1, n1, s1) =
        (nonce_val(k.min_nonce.as_bytes()), nonce_val(k.next_min_nonce.as_bytes()), nonce_val(k.seen_nonce.as_bytes()));
    assert!(m1 <= n1 && n1 <= s1 + 1);
    assert!(g_prev <= g_last && g_last <= g_all);
    assert!(g_prev <= m1 && g_last <= n1 && g_all <= s1 + 1);
    witness!();
}

// ---------------------------------------------------------------- C03-H4
/// CryptoCore::every_second ticks all four slots
#[cfg_attr(kani, kani::proof, kani::unwind(13))]
pub fn c03_all_slots_tick() {
    let seen: [[u8; 12]; 4] = kani::any();
    let next: [[u8; 12]; 4] = kani::any();
    let mut core = core_with(&aead::AES_128_GCM, &[0x22; 32], false, 0);
    let mut i = 0;
    while i < 4 {
        kani::assume(nonce_val(&seen[i]) < M96 - 1);
        core.keys[i].seen_nonce = Nonce(seen[i]);
        core.keys[i].next_min_nonce = Nonce(next[i]);
        i += 1;
    }
    core.every_second();
    let mut i = 0;
    while i < 4 {
        assert!(nonce_val(core.keys[i].min_nonce.as_bytes()) == nonce_val(&next[i]));
        assert!(nonce_val(core.keys[i].next_min_nonce.as_bytes()) == nonce_val(&seen[i]) + 1);
        assert!(nonce_val(core.keys[i].seen_nonce.as_bytes()) == nonce_val(&seen[i]));
        i += 1;
    }
    witness!();
}

// (C02 receiver-side obligations: see recv_datagram above)

// =====================================================================================================  C08
/// totality of the sealed-datagram receive path of the crypto core: for every datagram length and content, every
/// window state and either AEAD verdict, `decrypt` returns (Ok or Err) - no panic, overflow or out-of-bounds.
fn core_decrypt_total(len: usize) {
    let data: [u8; 48] = kani::any();
    let min = any_nonce();
    let seen = any_nonce();
    let half: bool = kani::any();
    let mut core = CryptoCore {
        rand: SystemRandom::new(),
        keys: [
            free_slot(&aead::AES_128_GCM),
            free_slot(&aead::AES_128_GCM),
            free_slot(&aead::AES_128_GCM),
            free_slot(&aead::AES_128_GCM),
        ],
        current_key: 0,
        nonce_half: half,
    };
    let slot = (data[0] % 4) as usize;
    // window state of the addressed slot is arbitrary (slot chosen by the datagram: assign all four)
    let mut i = 0;
    while i < 4 {
        core.keys[i].min_nonce = min.clone();
        core.keys[i].seen_nonce = seen.clone();
        i += 1;
    }
    let _ = slot;
    // receive buffers are created with 100 bytes of headroom (cloud.rs SPACE_BEFORE)
    let mut buf = MsgBuffer::new(100);
    buf.set_length(len);
    buf.message_mut().copy_from_slice(&data[..len]);
    let res = okf(core.decrypt(&mut buf));
    vcover!(res.is_some(), "accepted");
    vcover!(res.is_none(), "rejected");
    witness!();
}
macro_rules! total_inst {
    ($($name:ident = $len:expr),*) => {$(
        #[cfg_attr(kani, kani::proof, kani::unwind(34))]
        pub fn $name() {
            core_decrypt_total($len)
        }
    )*};
}
total_inst!(
    c08_core_decrypt_total_len00 = 0, c08_core_decrypt_total_len01 = 1, c08_core_decrypt_total_len02 = 2,
    c08_core_decrypt_total_len03 = 3, c08_core_decrypt_total_len04 = 4, c08_core_decrypt_total_len05 = 5,
    c08_core_decrypt_total_len06 = 6, c08_core_decrypt_total_len07 = 7, c08_core_decrypt_total_len08 = 8,
    c08_core_decrypt_total_len09 = 9, c08_core_decrypt_total_len10 = 10, c08_core_decrypt_total_len11 = 11,
    c08_core_decrypt_total_len12 = 12, c08_core_decrypt_total_len13 = 13, c08_core_decrypt_total_len14 = 14,
    c08_core_decrypt_total_len15 = 15, c08_core_decrypt_total_len16 = 16, c08_core_decrypt_total_len17 = 17,
    c08_core_decrypt_total_len18 = 18, c08_core_decrypt_total_len19 = 19, c08_core_decrypt_total_len20 = 20,
    c08_core_decrypt_total_len21 = 21, c08_core_decrypt_total_len22 = 22, c08_core_decrypt_total_len23 = 23,
    c08_core_decrypt_total_len24 = 24, c08_core_decrypt_total_len25 = 25, c08_core_decrypt_total_len26 = 26,
    c08_core_decrypt_total_len31 = 31, c08_core_decrypt_total_len32 = 32, c08_core_decrypt_total_len40 = 40,
    c08_core_decrypt_total_len48 = 48
);


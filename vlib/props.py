"""Obligation registry: which solver obligations decide which property, at which tier."""
QUICK_TIMEOUT = 240
THOROUGH_TIMEOUT = 1200

RING_ASSUME = [
    "ring::aead replaced by an ideal AEAD: open succeeds iff the exact (algorithm, key, nonce, ciphertext, tag, aad length) "
    "tuple was produced by an earlier seal (INT-CTXT + correctness assumed, not verified); 'free' keys answer open with an "
    "arbitrary verdict; ciphertext = plaintext XOR pad on the first 32 bytes, longer ciphertexts are remembered by length "
    "and 32-byte prefix only; confidentiality is not modelled",
    "ring::rand::SystemRandom::fill returns arbitrary bytes (over-approximates every RNG)",
    "smallvec replaced by a fixed-capacity inline-storage model with the same API (spill to heap unobservable; exceeding the model capacity is an assertion failure, not a cut)",
    "log macros are dead code at the default max level (Off); formatting is not the subject of any property",
    "Error values are forgotten, not dropped, in harness code (their drop glue is irrelevant to every property)",
    "Kani 0.68 / CBMC 6.11 (cadical) and rustc's MIR are trusted; counterexamples are replayed natively before being reported",
]


def K(name, what, tiers=("quick", "thorough"), role=None, **kw):
    d = {"engine": "kani", "name": name, "what": what, "tiers": list(tiers), "role": role or name}
    d.update(kw)
    return d


T = ("thorough",)
PROPS = {}

# ------------------------------------------------------------------------------------------------------------ C02
PROPS["C02"] = {
    "files": ["src/crypto/core.rs", "src/util.rs"],
    "functions": ["CryptoCore::encrypt", "CryptoCore::decrypt", "CryptoCore::decrypt_with_key", "Nonce::increment", "PeerCrypto::send_message", "PeerCrypto::handle_message",
                  "MsgBuffer::{new,set_start,set_length,message_mut,message,len,get_start}"],
    "bounds": "one seal per harness; payload 0..16 bytes symbolic (1000/9000/65400 bytes: window arithmetic only); slot ids "
              "concrete 0..3; one adversarial rewrite of one byte (any value) per region {key id, each counter byte, "
              "ciphertext, tag}; truncation by 1..8 bytes; loops unwound 34 with unwinding assertions",
    "outside": "node level: absence of cleartext on a node's wire, interface write only from the DATA arm (GenericCloud); "
               "cipher combinations are one Algorithm value per harness (the code is generic in it); PeerCrypto dispatch",
    "assumptions": RING_ASSUME,
    "obligations": [
        K("c04_seal_fresh_nonce_s0_n4", "envelope layout: header = slot id + low 7 nonce bytes, tag behind ciphertext, window moves by 8/+24"),
        K("c04_seal_fresh_nonce_s2_n16", "envelope layout, slot 2, 16-byte payload, 100 bytes headroom"),
        K("c04_seal_fresh_nonce_s0_n1000", "envelope window arithmetic, 1000-byte payload", T),
        K("c04_seal_fresh_nonce_s1_n9000", "envelope window arithmetic, 9000-byte payload", T),
        K("c04_seal_fresh_nonce_s2_n65400", "envelope window arithmetic, 65400-byte payload", T),
        K("c02_send_message_seals_type_and_payload_n4", "PeerCrypto::send_message: type byte + payload go through exactly one seal; nothing leaves outside it"),
        K("c02_send_message_seals_type_and_payload_n0", "same, empty payload", T),
        K("c02_send_message_plain_only_when_flagged", "bytes leave unsealed only on a connection whose handshake negotiated plain"),
        K("c08_dispatch_pending_len02", "while the handshake is pending nothing but handshake messages is accepted (no core yet != plain)", role="c08_dispatch"),
        K("c08_dispatch_pending_len24", "same, 24-byte datagram", T, role="c08_dispatch"),
        K("c08_dispatch_enc_len24", "on an encrypted connection nothing an outsider sends is delivered", role="c08_dispatch"),
        K("c02_recv_genuine_s0_n4", "untouched datagram (slot 0): accepted iff counter fits 56 bits and sender half is opposite; payload byte-identical; seen = counter"),
        K("c02_recv_genuine_s0_n0", "same, empty payload", T),
        K("c02_recv_genuine_s0_n8", "same, 8-byte payload", T),
        K("c02_recv_tamper_keyid_s0", "key-id byte rewritten to any value outside 0..=3 is dropped", role="c02_recv_tamper_keyid"),
        K("c02_recv_tamper_keyid_s0_to1", "key-id byte rewritten to another slot id (0 -> 1) is dropped (field-sensitive buffer)", T, role="c02_recv_tamper_keyid", kani_args=["-Z", "unstable-options", "--cbmc-args", "--max-field-sensitivity-array-size", "65536"], timeout={"thorough": 2400}),
        K("c02_recv_tamper_keyid_s0_to3", "key-id 0 -> 3 is dropped (field-sensitive buffer)", T, role="c02_recv_tamper_keyid", kani_args=["-Z", "unstable-options", "--cbmc-args", "--max-field-sensitivity-array-size", "65536"], timeout={"thorough": 2400}),
        K("c02_recv_tamper_keyid_s3", "key-id 3 -> any value outside 0..=3 is dropped", T, role="c02_recv_tamper_keyid"),
        K("c02_recv_tamper_ctr1", "counter byte 1 rewritten to any value: accepted iff unchanged (and fits/halves)"),
        K("c02_recv_tamper_ctr2", "counter byte 2, same", T),
        K("c02_recv_tamper_ctr3", "counter byte 3, same", T),
        K("c02_recv_tamper_ctr4", "counter byte 4, same", T),
        K("c02_recv_tamper_ctr5", "counter byte 5, same", T),
        K("c02_recv_tamper_ctr6", "counter byte 6, same", T),
        K("c02_recv_tamper_ctr7", "counter byte 7 rewritten to any value: accepted iff unchanged"),
        K("c02_recv_tamper_ct0", "any rewrite of the first ciphertext byte is dropped"),
        K("c02_recv_tamper_ct3", "any rewrite of the last ciphertext byte is dropped", T),
        K("c02_recv_tamper_tag0", "any rewrite of the first tag byte is dropped", T),
        K("c02_recv_tamper_tag15", "any rewrite of the last tag byte is dropped"),
        K("c02_recv_other_connection", "a datagram sealed under other key material (another connection) is dropped"),
        K("c02_recv_truncated_n8_cut1", "truncation by one byte is dropped"),
        K("c02_recv_truncated_n8_cut8", "truncation by eight bytes is dropped", T),
        K("c02_recv_truncated_n4_cut3", "truncation by three bytes is dropped", T),
        K("c02_recv_truncated_n4_cut5", "truncation below the 24-byte minimum is dropped", T),
        K("c02_recv_truncated_n8_cut24", "truncation to 8 bytes is dropped"),
        K("c02_recv_genuine_s1_n1", "slot 1: nothing but a fitting, opposite-half datagram is accepted (one direction)", T),
        K("c02_recv_genuine_s2_n8", "slot 2, same", T),
        K("c02_recv_genuine_s3_n2", "slot 3, same"),
        K("c02_recv_tamper_ctr1_s1", "slot 1: rewritten counter byte 1 is dropped", T),
        K("c02_recv_tamper_ctr7_s3", "slot 3: rewritten counter byte 7 is dropped", T),
        K("c02_recv_tamper_tag15_s2", "slot 2: rewritten tag byte is dropped", T),
        K("c02_recv_genuine_s1_n1_fs", "slot 1 exact in both directions (field-sensitive buffer)", T, kani_args=["-Z", "unstable-options", "--cbmc-args", "--max-field-sensitivity-array-size", "65536"], timeout={"thorough": 2400}),
        K("c02_recv_genuine_s2_n8_fs", "slot 2 exact in both directions (field-sensitive buffer)", T, kani_args=["-Z", "unstable-options", "--cbmc-args", "--max-field-sensitivity-array-size", "65536"], timeout={"thorough": 2400}),
        K("c02_recv_genuine_s3_n2_fs", "slot 3 exact in both directions (field-sensitive buffer)", T, kani_args=["-Z", "unstable-options", "--cbmc-args", "--max-field-sensitivity-array-size", "65536"], timeout={"thorough": 2400}),
        K("c02_recv_tamper_ctr1_s1_fs", "slot 1, counter byte 1 exact in both directions (field-sensitive buffer)", T, kani_args=["-Z", "unstable-options", "--cbmc-args", "--max-field-sensitivity-array-size", "65536"], timeout={"thorough": 2400}),
    ],
}

# ------------------------------------------------------------------------------------------------------------ C03
PROPS["C03"] = {
    "files": ["src/crypto/core.rs"],
    "functions": ["CryptoCore::decrypt_with_key", "CryptoKey::update_min_nonce", "CryptoCore::every_second", "Nonce::increment",
                  "Nonce as PartialOrd (derived)"],
    "bounds": "one operation from an ARBITRARY window state (inductive step: histories of any length are covered by the "
              "invariant, not enumerated); 96-bit counters, no wrap (seen < 2^96-1 assumed); datagram body 18-20 bytes; "
              "unwind 13/34 with unwinding assertions",
    "outside": "that a node drives the tick once per second for every peer (GenericCloud::crypto_housekeep); node-level replay",
    "assumptions": RING_ASSUME + ["the AEAD verdict does not depend on the window state (open_in_place does not read it)"],
    "obligations": [
        K("c03_window_step", "one delivery: Ok => counter >= min and seen'=max; Err => seen unchanged; thresholds never move; below min never consults the AEAD"),
        K("c03_valid_datagram_accepted_iff_in_window", "a genuinely sealed datagram is accepted iff counter >= min (any order inside the window)"),
        K("c03_tick_step", "tick: min'=next_min, next_min'=seen+1, seen'=seen"),
        K("c03_history_invariant_step", "inductive invariant with ghost history: accepted => higher than everything accepted before the tick preceding the last tick; newer-than-seen is inside the window"),
        K("c03_all_slots_tick", "every_second applies the tick to all four key slots"),
        K("c03_peercrypto_tick_reaches_core", "PeerCrypto::every_second drives the tick of the connection's core"),
        K("c03_peercrypto_tick_on_rotation_tick", "... also on the tick on which a rotation message goes out (early return with a Reply)"),
    ],
}

# ------------------------------------------------------------------------------------------------------------ C04
PROPS["C04"] = {
    "files": ["src/crypto/core.rs"],
    "functions": ["Nonce::increment", "CryptoCore::encrypt", "CryptoCore::decrypt", "CryptoKey::new", "CryptoCore::rotate_key",
                  "PartialOrd::gt on [u8; 20] (SaltedNodeIdHash)"],
    "bounds": "all 2^96 counter values; one seal per harness; key lifetime < 2^88 seals (before the half marker byte could be "
              "reached by carries) is the stated limit of 'no repeat'; rotation ids r + 4k for all k < 2^32",
    "outside": "whole-lifetime simulated runs; that handle_init feeds `own_hash > peer_hash` into CryptoCore::new (read, not "
               "encoded for the initiator's Pong arm; the responder's Ping arm is decided with the parser and the writer stubbed); "
               "unpredictability of the start value (RNG trusted)",
    "assumptions": RING_ASSUME,
    "obligations": [
        K("c04_increment_is_plus_one", "increment = +1 mod 2^96 for every value"),
        K("c04_seal_fresh_nonce_s0_n4", "seal increments first and hands exactly that nonce (and this slot's key) to the AEAD"),
        K("c04_seal_fresh_nonce_s1_n0", "same, slot 1, empty payload"),
        K("c04_seal_fresh_nonce_s2_n16", "same, slot 2", T),
        K("c04_seal_fresh_nonce_s3_n1", "same, slot 3", T),
        K("c02_recv_genuine_s0_n4", "a counter that does not fit 56 bits is undecryptable, never wrapped; ends must be in opposite halves"),
        K("c02_recv_genuine_s3_n2", "slot 3: only a fitting opposite-half datagram is accepted", T),
        K("c02_recv_genuine_s3_n2_fs", "slot 3 exact in both directions (field-sensitive buffer)", T, kani_args=["-Z", "unstable-options", "--cbmc-args", "--max-field-sensitivity-array-size", "65536"], timeout={"thorough": 2400}),
        K("c04_new_slot_half_and_start", "new slot: half marker as requested, bytes 1..5 zero, tail unconstrained, window zero"),
        K("c04_rotate_slot0_send", "rotate_key: slot id mod 4, own half, fresh window, becomes sending slot"),
        K("c04_rotate_slot1_recv", "rotate_key: slot 1, receive only keeps the sending slot"),
        K("c04_rotate_slot2_send", "rotate_key: slot 2", T),
        K("c04_rotate_slot3_recv", "rotate_key: slot 3", T),
        K("c04_half_decision_antisymmetric", "own_hash > peer_hash is antisymmetric on distinct 20-byte hashes"),
        K("c04_responder_half_is_hash_order", "real handle_init (Ping arm, parser/writer stubbed): the responder's core is created in the half own_hash > peer_hash with the selected cipher",
          timeout={"quick": 900}),
    ],
}

# ------------------------------------------------------------------------------------------------------------ C08
_c08_lens = [0, 1, 2, 3, 4, 5, 6, 7, 8, 9, 10, 11, 12, 13, 14, 15, 16, 17, 18, 19, 20, 21, 22, 23, 24, 25, 26, 31, 32, 40, 48]
_c08_quick = {0, 1, 8, 23, 24, 25, 40}
_c08_dq = {("enc", 0), ("enc", 2), ("enc", 23), ("enc", 24), ("plain", 0), ("plain", 1), ("pending", 0), ("pending", 1), ("pending", 2), ("linger", 0), ("linger", 1)}
PROPS["C08"] = {
    "files": ["src/crypto/core.rs", "src/crypto/common.rs", "src/util.rs"],
    "functions": ["CryptoCore::decrypt", "CryptoCore::decrypt_with_key", "PeerCrypto::handle_message", "PeerCrypto::handle_init_message",
                  "PeerCrypto::decrypt_message", "PeerCrypto::handle_rotate_message", "is_init_message", "MsgBuffer window methods"],
    "bounds": "dispatch: connection states {established encrypted, established plain, handshake pending, encrypted with lingering "
              "handshake} x datagram lengths {0,1,2,23,24,25,40} (encrypted state: 1 omitted - that single instance exhausts 20 GB in CBMC's propositional reduction, 2 and 23 do not) x 40 arbitrary stale bytes in the reused receive buffer; "
              "InitState::handle_init replaced by 'rejects with an arbitrary error' (what an outsider can cause, see C01), "
              "RotationState::handle_message replaced by assert(false) (shown unreachable for an outsider). sealed-datagram path: datagram lengths 0..=26, 31, 32, 40, 48 (each its own instance; quick: 0,1,8,23,24,25,40), "
              "all bytes symbolic, window state and AEAD verdict arbitrary; buffer headroom 100 bytes as on the receive path",
    "outside": "handshake-marker path (InitMsg::read_from does not complete under symbolic execution); dispatch on source "
               "address in GenericCloud; sequences of datagrams; 65535-byte datagrams",
    "assumptions": RING_ASSUME,
    "obligations": [K("c08_rejected_handshake_message_leaves_no_state", "handle_init: a handshake datagram the parser/verifier rejects (any error) leaves stage, timers, last message, keys, core and the buffer untouched")] +
                   [K("c08_core_decrypt_total_len%02d" % n, "CryptoCore::decrypt returns on every %d-byte datagram" % n,
                      ("quick", "thorough") if n in _c08_quick else T, role="c08_core_decrypt_total") for n in _c08_lens] +
                   [K("c08_dispatch_%s_len%02d" % (st, n), "PeerCrypto::handle_message, connection %s, %d-byte datagram + arbitrary stale buffer: no fault, nothing accepted, window well formed" % (st, n),
                      ("quick", "thorough") if (st, n) in _c08_dq else T, role="c08_dispatch")
                    for (st, n) in [("enc", 0), ("enc", 2), ("enc", 23), ("enc", 24), ("enc", 25), ("enc", 40),
                                    ("plain", 0), ("plain", 1), ("plain", 2), ("plain", 40),
                                    ("pending", 0), ("pending", 1), ("pending", 2), ("pending", 24), ("pending", 40),
                                    ("linger", 0), ("linger", 1), ("linger", 24), ("linger", 40)]],
}

STD_ASSUME = [
    "Kani 0.68 / CBMC 6.11 (cadical) and rustc's MIR are trusted; counterexamples are replayed natively before being reported",
    "log macros are dead code at the default max level (Off)",
]

TABLE_ASSUME = STD_ASSUME + [
    "std HashMap (hashbrown+fnv) replaced by an insertion-ordered association list with the same API; the checked functions do not depend on hash iteration order",
    "Vec<ClaimEntry> and smallvec replaced by fixed-capacity inline vectors with the same API (capacity 8/16; exceeding it is an assertion failure, not a cut)",
    "clock = the repository's MockTimeSource set to an arbitrary instant 1 <= now < 2^40; expiries < 2^41 (no i64 overflow)",
    "peers come from a two-address universe {P, Q} (the code only compares peer addresses for equality)",
]

# ------------------------------------------------------------------------------------------------------------ C19
PROPS["C19"] = {
    "files": ["src/payload.rs", "src/types.rs"],
    "functions": ["<Frame as Protocol>::parse", "<Packet as Protocol>::parse", "Address::read_from_fixed"],
    "bounds": "Frame::parse: every byte string of length 0..=24 (one instance per length; the dissector reads at most 16 bytes); Packet::parse: every "
              "byte string of length 0..=64 (one instance per length; reads at most 40); quick tier: 7 lengths each around the limits; all ethertypes, tag-control values and version nibbles are "
              "inside the symbolic bytes; compared with an independently written reference dissector",
    "outside": "byte strings longer than 24 / 64 bytes (no code path depends on the excess); VLAN id 0 may be reported in "
               "either the tagged or the folded form here - the folding is decided under C13",
    "assumptions": STD_ASSUME,
    "obligations": [
    ] + [K("c19_frame_exact_len%02d" % n, "Frame::parse == reference dissector on all %d-byte strings; never panics" % n,
           ("quick", "thorough") if n in (0, 13, 14, 15, 16, 18, 24) else T) for n in range(0, 25)]
      + [K("c19_packet_exact_len%02d" % n, "Packet::parse == reference dissector on all %d-byte strings; never panics" % n,
           ("quick", "thorough") if n in (0, 1, 19, 20, 39, 40, 64) else T) for n in range(0, 65)
    ],
}

# ------------------------------------------------------------------------------------------------------------ C13
PROPS["C13"] = {
    "files": ["src/payload.rs", "src/table.rs", "src/cloud.rs"],
    "functions": ["<Frame as Protocol>::parse", "ClaimTable::cache", "ClaimTable::lookup", "ClaimTable::housekeep", "ClaimTable::remove_claims"],
    "bounds": "all 20-byte frames behind ethertype 0x8100 (all 65536 tag-control values, all PCP/DEI nibbles, nested tags); "
              "learning: one address, two writes at arbitrary instants, arbitrary switch timeout",
    "outside": "node level: flooding of unknown destinations, learning driven by GenericCloud::handle_payload_from, sequences of "
               "frames; that hub/router modes never call ClaimTable::cache (the learning flag table in GenericCloud::new)",
    "assumptions": TABLE_ASSUME,
    "obligations": [
        K("c13_vlan_normalisation", "address = 12-bit VLAN id + MAC; PCP/DEI never matters; VLAN 0 counts as untagged; nested tags ignored"),
        K("c13_learn_last_writer_wins", "learning: last writer is the only next hop, expiry = now + switch timeout"),
        K("c11_swept_decision_is_not_reused", "a learned entry is gone after its expiry has been swept"),
        K("c12_remove_claims_k2", "disconnect removes the peer's learned entries, keeps the others"),
        K("c13_learning_flag_table", "hub and router never learn; switch does; normal learns on tap only (flag table of GenericCloud::new)"),
    ],
}

# ------------------------------------------------------------------------------------------------------------ C11
PROPS["C11"] = {
    "files": ["src/types.rs", "src/table.rs", "src/cloud.rs"],
    "functions": ["Range::matches", "ClaimTable::lookup", "ClaimTable::housekeep", "Address as PartialEq", "GenericCloud::handle_interface_data (routing decision, extracted slice)"],
    "bounds": "Range::matches: none (all bases, addresses, lengths 0..=16, prefix lengths 0..=255). lookup: tables of k <= 3 claims "
              "with symbolic bases / prefix lengths / owners / expiries, address lengths {1,4,6,8,16}, one lookup from an empty or "
              "one-entry cache, symbolic clock and timeouts. sweep: 2 cached decisions + 2 claims with arbitrary expiries",
    "outside": "router-drops / switch-floods beyond the routing decision of handle_interface_data (send_msg / broadcast_msg / the counters are recorders), the statistics file; tables with more than 3 claims; 'reused no longer "
               "than the switch timeout' is read at sweep granularity (lookup itself does not compare expiries)",
    "assumptions": TABLE_ASSUME,
    "obligations": [
        K("c11_matches_is_prefix_match", "Range::matches == (equal lengths and common leading bits >= prefix length), bit-by-bit reference"),
        K("c11_lookup_k2_len4", "lookup = owner of the longest matching prefix (first on ties), None iff none; cached until min(now+switch timeout, claim expiry)"),
        K("c11_lookup_k3_len1", "same, 3 claims, 1-byte addresses"),
        K("c11_lookup_k0_len4", "empty table", T), K("c11_lookup_k1_len4", "1 claim", T), K("c11_lookup_k2_len1", "2 claims, 1-byte", T),
        K("c11_lookup_k2_len6", "2 claims, MAC (prefix lengths up to 48 meaningful)"), K("c11_lookup_k2_len16", "2 claims, IPv6 (prefix lengths up to 128 meaningful)"),
        K("c11_lookup_k3_len4", "3 claims, IPv4", T), K("c11_lookup_k3_len8", "3 claims, VLAN+MAC", T),
        K("c11_lookup_prefers_cache", "a cached decision is returned as is and not refreshed"),
        K("c11_sweep_removes_exactly_expired", "the sweep keeps exactly the claims and decisions whose expiry is not in the past"),
        K("c11_swept_decision_is_not_reused", "after the sweep an expired decision is never returned"),
        K("c11_routing_step_p2", "routing decision of GenericCloud::handle_interface_data (the `match self.table.lookup(dst)` extracted from src/cloud.rs; "
          "lookup answer prepared, send/broadcast/connect recorded; 2 peers with symbolic addresses): a decision => DATA to exactly that address; "
          "no decision => router mode sends nothing and counts exactly the payload as dropped, switch/hub mode broadcasts once and counts nothing; "
          "a decision pointing at a non-peer is repaired (claims removed, address re-dialled)", role="c11_routing_step"),
        K("c11_routing_step_p0", "same, no peer", role="c11_routing_step"),
    ],
}

# ------------------------------------------------------------------------------------------------------------ C12
PROPS["C12"] = {
    "files": ["src/table.rs"],
    "functions": ["ClaimTable::set_claims", "ClaimTable::remove_claims", "ClaimTable::housekeep"],
    "bounds": "one operation from an arbitrary table of k <= 3 claims over two owners (1-byte ranges, any prefix, no duplicate "
              "(owner, range) pairs) + one cached decision per owner; announcements of m <= 2 ranges (duplicates allowed)",
    "outside": "that every peer-removal path of GenericCloud calls remove_claims (timeout, close, failed or superseded handshake); "
               "'next hop is a peer' at node level; tables beyond 3 claims / announcements beyond 2 ranges",
    "assumptions": TABLE_ASSUME,
    "obligations": [
        K("c12_set_claims_k2_m1", "claims of the announcing peer == announcement; other peer untouched; dropped claim flushes its cached decisions", role="c12_set_claims", mem_gb=24, timeout={"quick": 600}),
        K("c12_set_claims_k1_m1", "same, 1 pre-entry", role="c12_set_claims", mem_gb=24, timeout={"quick": 600}),
        K("c12_set_claims_k2_m0", "withdraw everything", role="c12_set_claims"),
        K("c12_set_claims_k0_m2", "first announcement (with possible duplicate)", role="c12_set_claims"),
        K("c12_set_claims_k0_m0", "", T, role="c12_set_claims"), K("c12_set_claims_k0_m1", "", T, role="c12_set_claims"),
        K("c12_set_claims_k1_m0", "", T, role="c12_set_claims"), K("c12_set_claims_k1_m2", "", T, role="c12_set_claims"),
        K("c12_set_claims_k2_m2", "", T, role="c12_set_claims"), K("c12_set_claims_k3_m1", "", T, role="c12_set_claims"),
        K("c12_set_claims_k3_m2", "", T, role="c12_set_claims"),
        K("c12_remove_claims_k2", "after remove_claims(P) nothing names P; Q's entries unchanged and in order"),
        K("c12_remove_claims_k0", "", T), K("c12_remove_claims_k1", "", T), K("c12_remove_claims_k3", "", T),
        K("c11_sweep_removes_exactly_expired", "claims not re-announced are gone once their expiry has passed"),
        K("c12_timed_out_peer_loses_routes_and_is_redialled", "the removal loop behind housekeep's expiry loop (`for addr in del`, extracted from src/cloud.rs; remove_claims / connect_sock recorded): every selected peer leaves the peer table, its claims are removed and its address is re-dialled; the other peer stays"),
        K("c11_routing_step_p2", "repair path: a table decision that names a non-peer has its claims removed and the address re-dialled at the first payload (extracted `match self.table.lookup(dst)` of handle_interface_data)", role="c11_routing_step"),
    ],
}

# ------------------------------------------------------------------------------------------------------------ C16
_rr = [0, 1, 4, 6, 8, 15, 16]
_rd = [0, 1, 2, 6, 10, 17, 18, 20]
PROPS["C16"] = {
    "files": ["src/types.rs", "src/messages.rs", "src/crypto/rotate.rs"],
    "functions": ["Range::write_to", "Range::read_from", "Address::read_from", "Address::read_from_fixed", "Address::write_to",
                  "RotationMessage::write_to", "RotationMessage::read_from"],
    "bounds": "claims (Range): address lengths {0,1,4,6,8,15,16} x all prefixes x all bytes for the round trip; decoder totality "
              "on arbitrary byte strings of total length {0,1,2,6,10,17,18,20}; rotation messages: round trip for key lengths {0,1,31,32}, "
              "decoder totality on arbitrary strings of length {0,8,9,10,12,24} (length fields up to 255 unwound)",
    "outside": "the node-information codec as a whole (NodeInfo: encode_peer_list_part exhausts 16 GB even on concrete addresses; only its "
               "limit-and-flags statements are decided, as an extracted slice) and the "
               "handshake codec as a whole (InitMsg::read_from does not complete under symbolic execution; its cipher-list arm is extracted and "
               "decided); unknown-part skipping; 64 KiB stale tails",
    "assumptions": STD_ASSUME,
    "obligations": [K("c16_range_roundtrip_len%02d" % n, "Range encode->decode identity, %d-byte address" % n,
                      ("quick", "thorough") if n in (0, 4, 16) else T) for n in _rr] +
                   [K("c16_range_decode_total%02d" % n, "Range::read_from total and exact on arbitrary %d bytes" % n,
                      ("quick", "thorough") if n in (0, 2, 6, 18) else T) for n in _rd] +
                   [K("c16_rotation_rt_p32_c32", "RotationMessage encode->decode identity (proposal + confirmation, 32-byte keys)"),
                    K("c16_rotation_rt_p32_c0", "same, no confirmation"),
                    K("c16_rotation_rt_p0_c0", "same, empty keys", T), K("c16_rotation_rt_p1_c31", "same, 1- and 31-byte keys", T),
                    K("c16_rotation_decode_total12", "RotationMessage::read_from total and exact on arbitrary 12 bytes (length fields up to 255)"),
                    K("c16_rotation_decode_total10", "10 bytes"), K("c16_rotation_decode_total00", "0 bytes", T),
                    K("c16_rotation_decode_total08", "8 bytes", T), K("c16_rotation_decode_total09", "9 bytes", T),
                    K("c16_rotation_decode_total24", "24 bytes", T)],
}

# ------------------------------------------------------------------------------------------------------------ C06
_c06_quick = {(4, 6), (10, 15), (0, 3), (1, 2), (7, 9), (12, 5), (15, 15), (3, 0), (1, 1), (5, 1), (2, 7)}
_WIRE = [("n0_t", "no cipher, unencrypted allowed"), ("n1_f", "1 cipher"), ("n2_f", "2 ciphers in any order, repetitions included"),
         ("n2_t", "2 ciphers + unencrypted"), ("n3_f", "3 ciphers in any order"), ("n3_t", "3 ciphers + unencrypted")]
_c06_wire = [K("c06_cipher_list_on_the_wire_" + k, "the offered cipher list reaches the peer as offered (writer arm of write_to then reader arm of read_from, "
               "both extracted): same ciphers, same order, bit-identical speeds, same flag - " + w, role="c06_wire") for k, w in _WIRE]
PROPS["C06"] = {
    "files": ["src/crypto/init.rs", "src/crypto/common.rs"],
    "functions": ["InitState::select_algorithm", "InitState::algorithm_rank",
                  "InitMsg::write_to (cipher-list arm, extracted)", "InitMsg::read_from (cipher-list arm, extracted)"],
    "bounds": "cipher list on the wire: every list of 0..=3 ciphers in any order (repetitions included), every f32 bit pattern as speed, "
              "flag on/off, through the extracted writer and reader arms; selection: each side's list = one of the 16 ordered subsets of {aes128, aes256, chacha20} (all 256 pairs in the thorough tier, "
              "11 in the quick tier, single-cipher shapes included), all six speeds symbolic over every finite non-negative f32 (ties, zero, huge values included), "
              "both allow-unencrypted flags symbolic; three selections per instance (A about B, B about A, A with reversed list about B)",
    "outside": "NaN speeds (excluded by the property); lists with a cipher named twice; Crypto::parse_algorithms (string handling); "
               "'altering the lists in transit makes the handshake fail' (needs the handshake parser, out of reach); of the parser only "
               "the cipher-list arm is decided (extracted; the rest of InitMsg::read_from does not complete under symbolic execution)",
    "assumptions": RING_ASSUME[3:] + ["ring::aead::Algorithm equality is identity of the three static algorithm objects (model: id compare)",
                                      "the two arms are extracted textually from src/crypto/init.rs on every run and compiled as associated functions of "
                                      "InitMsg with the bindings the surrounding function provides (w / r = Cursor over the buffer, field_len, algorithms); "
                                      "an anchor that no longer matches makes the check exit 2"],
    "obligations": [K("c06_sel_a%02d_b%02d" % (a, b), "selection symmetric / optimal / order independent for list shapes %d x %d" % (a, b),
                      ("quick", "thorough") if (a, b) in _c06_quick else T, role="c06_select_symmetric",
                      timeout={"quick": 900, "thorough": 1800}, mem_gb=16)
                    for a in range(16) for b in range(16)] + _c06_wire,
}

# the cipher-list part of the handshake codec is the one piece of InitMsg that can be decided (extracted arms)
PROPS["C16"]["obligations"] += [o for o in _c06_wire if o["name"].endswith(("n2_f", "n3_t"))] + [
    K("c16_cipher_list_decode_total_15_of_15", "cipher-list reader arm of InitMsg::read_from on 15 arbitrary bytes: a list of <= 3 ciphers, no panic", role="c16_cipher_list_total"),
    K("c16_cipher_list_decode_total_12_of_14", "12 arbitrary bytes, length field 14 (two entries)", role="c16_cipher_list_total"),
    K("c16_cipher_list_decode_total_7_of_10", "truncated: 7 bytes present, length field 10: the parse error, no panic", role="c16_cipher_list_total"),
]
_sig = [K("c08_signature_read_total_12_at_2", "signature read of InitMsg::read_from (extracted slice) on arbitrary bytes, any length byte 0..=255, 12 bytes with the "
          "signature part starting at 2: the signature of that length or the parse error, no panic", role="c08_signature_read"),
        K("c08_signature_read_total_16_at_0", "same, 16 bytes, from 0", role="c08_signature_read"),
        K("c08_signature_read_total_5_at_5", "same, nothing left to read", role="c08_signature_read")]
PROPS["C16"]["obligations"] += _sig[:2]
PROPS["C08"]["obligations"] += _sig
PROPS["C08"]["functions"] += ["InitMsg::read_from (signature read, extracted slice)"]
PROPS["C08"]["files"] = PROPS["C08"]["files"] + ["src/crypto/init.rs"]
PROPS["C08"]["assumptions"] = PROPS["C08"]["assumptions"] + [PROPS["C06"]["assumptions"][-1]]
PROPS["C16"]["obligations"] += [K("c16_peer_entry_limit_and_flags", "one peer-list entry of NodeInfo (limit-and-flags statements of encode_peer_list_part, extracted): for 0..=10 "
                                  "addresses per family at most seven remain and the flags byte carries exactly the two counts and the identity bit")]
PROPS["C16"]["obligations"] += [K("c16_own_addrs_limit_and_flags", "the node's own address list (limit-and-flags statements of encode_addrs_part, extracted): same limit of seven per family, flags byte = the two counts")]
PROPS["C16"]["functions"] += ["NodeInfo::encode_peer_list_part (limit-and-flags statements, extracted)", "NodeInfo::encode_addrs_part (limit-and-flags statements, extracted)"]
PROPS["C16"]["files"] += ["src/crypto/init.rs"]
PROPS["C16"]["functions"] += ["InitMsg::write_to (cipher-list arm, extracted)", "InitMsg::read_from (cipher-list arm and signature read, extracted)"]
PROPS["C16"]["bounds"] += "; handshake messages: only the cipher-list part (0..=3 entries, any order, any f32 bits; arbitrary bytes for totality) and the signature read (any length byte)"
PROPS["C16"]["assumptions"] = PROPS["C16"]["assumptions"] + [PROPS["C06"]["assumptions"][-1]]

EXTRACT_ASSUME = STD_ASSUME + [
    "statement slices are extracted textually from /repo on every run and compiled inside wrapper items that declare the "
    "fields they read with the types of the source (u16 peer timeouts / update frequency, u32 durations, i64 time); a slice "
    "whose anchor no longer matches makes the check exit 2 (maintenance signal), never pass",
]

# ------------------------------------------------------------------------------------------------------------ C15
PROPS["C15"] = {
    "files": ["src/cloud.rs", "src/config.rs"],
    "functions": ["GenericCloud::housekeep (announcement-interval slice)", "Config::get_keepalive", "GenericCloud::new (update_freq cast)",
                  "GenericCloud::reconnect_to_peers (back-off slice)", "GenericCloud::housekeep (peer expiry loop)", "GenericCloud::update_peer_info (expiry refresh)"],
    "bounds": "none on values: every own keep-alive (u16), every advertised peer timeout (u16) for 0..=3 peers, every own peer "
              "timeout and keep-alive option (u32), every back-off state inside the invariant; Kani's overflow checks model the "
              "debug profile, the native replay runs dev and release",
    "outside": "removal of a silent peer at the next tick and its re-dial (GenericCloud::housekeep's loop over the peer map), "
               "heterogeneous-mesh simulations, 48 h back-off schedules (the one-step invariant covers any number of steps)",
    "assumptions": EXTRACT_ASSUME,
    "obligations": [
        K("c15_announce_interval_0_peers", "no peers: interval from the default timeout", role="c15_announce_interval"),
        K("c15_announce_interval_1_peer", "delay is 1 s or < the advertised timeout, never above the own keep-alive, no arithmetic fault", role="c15_announce_interval"),
        K("c15_announce_interval_2_peers", "same, smallest of two advertised timeouts", role="c15_announce_interval"),
        K("c15_announce_interval_3_peers", "same, three peers", role="c15_announce_interval"),
        K("c15_keepalive_default_and_explicit", "get_keepalive: explicit value, else max(timeout/2-60, 1) without fault; update_freq cast", role="c15_keepalive"),
        K("c15_backoff_step", "back-off invariant 1 <= interval <= 3600, tries <= 10; doubles at most; next = now + interval"),
        K("c15_silent_peer_expires_exactly_after_timeout", "refresh sets expiry = now + own timeout; the tick expires exactly the peers silent for longer than the timeout"),
        K("c12_timed_out_peer_loses_routes_and_is_redialled", "a peer selected by the expiry loop is removed with its routes and re-dialled (extracted removal loop of housekeep)"),
    ],
}

# ------------------------------------------------------------------------------------------------------------ C20
PROPS["C20"] = {
    "files": ["src/main.rs"],
    "functions": ["parse_ip_netmask"],
    "bounds": "address text '10.0.0.1/' followed by 1, 2 or 3 arbitrary decimal digits (all prefix lengths 0..=999 incl. leading "
              "zeros), and the form without a slash; format! stubbed (messages are not the subject)",
    "outside": "the merge precedence of defaults / file / command line and the file round trip (Config::merge_* need structopt and "
               "serde_yaml under Kani: not built); malformed address strings other than over-long prefixes",
    "assumptions": EXTRACT_ASSUME + ["std::fmt::format stubbed by an empty string"],
    "obligations": [
        K("c20_netmask_one_digit", "prefix 0..=9: mask with that many leading ones, never a panic", role="c20_netmask", timeout={"quick": 600}),
        K("c20_netmask_two_digits", "prefix 00..=99: Ok iff <= 32 with the right mask", role="c20_netmask", timeout={"quick": 600}),
        K("c20_netmask_three_digits", "prefix 000..=999", T, role="c20_netmask"),
        K("c20_netmask_default_24", "/24 when omitted"),
    ],
}

# ------------------------------------------------------------------------------------------------------------ C18
PROPS["C18"] = {
    "files": ["src/crypto/common.rs", "src/util.rs"],
    "functions": ["Crypto::generate_keypair", "Crypto::parse_private_key", "Crypto::parse_public_key", "Crypto::parse_keypair",
                  "Crypto::public_key_from_private_key", "Crypto::parse_key_bytes", "Crypto::keypair_from_password"],
    "bounds": "all 2^256 seeds (arbitrary RNG output) through the real key API; all ASCII passwords of length 0, 1 (quick) and 2 (thorough), whitespace and "
              "control characters included, for the password path; the text codec is replaced by its contract "
              "(see assumptions) because to_base62/from_base62 do not complete under CBMC even for 2 bytes",
    "outside": "the text codec itself on arbitrary strings (only assumed); PBKDF2 determinism and password-derived trust between "
               "two nodes (ring is a model); Crypto::new end to end (speed measurement)",
    "assumptions": RING_ASSUME[1:] + [
        "CODEC CONTRACT (assumed, not verified): to_base62 renders the big-endian number, i.e. the bytes without leading zero "
        "bytes, and from_base62 returns exactly those bytes; under native replay the real codec runs, so a counterexample "
        "never depends on the contract - a PASS does",
        "ring::signature::Ed25519KeyPair model: public key = fixed bijection of the seed; seeds/keys of length != 32 rejected as ring does",
    ],
    "obligations": [
        K("c18_generated_keys_are_accepted", "generated key pair accepted as private / public / pair and denotes the same keys; private key yields its public key",
          role="c18_key_api"),
        K("c18_password_keys_match_printed_keys_len1", "node key derived from a password == the key pair printed for it (all 1-character ASCII passwords)",
          role="c18_password", timeout={"quick": 900, "thorough": 2400}, mem_gb=16),
        K("c18_password_keys_match_printed_keys_len2", "same, all 2-character ASCII passwords", T, role="c18_password", timeout={"thorough": 2400}, mem_gb=24),
        K("c18_password_keys_match_printed_keys_empty", "same, empty password", role="c18_password"),
        K("c18_password_keys_match_printed_keys_len33", "same, 33-character passwords (first two characters symbolic): just above the SHA-256 output length",
          role="c18_password", timeout={"quick": 900, "thorough": 2400}, mem_gb=16),
        K("c18_password_keys_match_printed_keys_len32", "same, 32-character passwords", T, role="c18_password", timeout={"thorough": 1200}, mem_gb=16),
        K("c18_password_keys_match_printed_keys_len40", "same, 40-character passwords (the model's input cap)", T, role="c18_password", timeout={"thorough": 1200}, mem_gb=16),
    ],
}

# ------------------------------------------------------------------------------------------------------------ C07
PROPS["C07"] = {
    "files": ["src/crypto/rotate.rs", "src/crypto/core.rs", "src/crypto/common.rs"],
    "functions": ["RotationState::process_message", "RotationState::cycle", "RotationState::new", "RotationState::create_key",
                  "RotationState::derive_key", "CryptoCore::rotate_key", "PeerCrypto::every_second (rotation tick)"],
    "bounds": "ONE operation of the real rotation state machine per obligation, from a symbolic state (ids, key material, flags): "
              "receipt of a proposal, the confirming cycle, receipt of a confirmation, receipt of a stale/duplicate message, "
              "two cycles after a lost proposal; key slot installation (rotate_key) for ids r + 4k, all k < 2^32",
    "outside": "the property's quantifier - all schedules of both machines to depth 12 with loss/duplication/reordering, and the "
               "probe datagram after every step: a three-operation run of the two machines in one harness exhausts 24 GB. The "
               "obligations decide the per-step facts the schedule argument rests on (receiver installs before it confirms, both "
               "ends derive the same key under the same id, duplicates are ignored, a lost proposal is re-sent unchanged); they "
               "do not compose them over schedules. 'at least every second interval' (timing in PeerCrypto::every_second) is not decided",
    "assumptions": RING_ASSUME[1:] + [
        "ring::agreement replaced by a commutative model: public = private XOR constant, shared(a, pub(b)) = pub(a) XOR pub(b); "
        "'same key material' is asserted through this identity; private keys are arbitrary (RNG model)",
    ],
    "obligations": [
        K("c07_receiver_half_proposal_becomes_pending", "proposal with a higher id: fresh key pair, shared key + public value kept pending, nothing installed, sending key never switched"),
        K("c07_receiver_half_cycle_installs_then_confirms", "confirming cycle: pending key installed for RECEIVING under the next even id, exactly its public value sent as confirmation under that id"),
        K("c07_sender_half_switches_to_confirmed_key", "confirmation with a higher id: start SENDING with shared(own proposal, confirmation) under exactly that id"),
        K("c07_stale_or_duplicate_message_is_ignored", "message id not above the own id: ignored, state untouched"),
        K("c07_lost_message_is_resent_unchanged", "lost proposal: next cycle arms the timeout, the one after re-sends the same proposal under the same id"),
        K("c07_resend_with_confirmation_keeps_id_and_content", "lost message that carried a confirmation: re-sent with the same id, confirmation and proposal; nothing installed, own id unchanged"),
        K("c04_rotate_slot0_send", "rotate_key installs into slot id mod 4 and switches the sending slot when asked"),
        K("c04_rotate_slot1_recv", "rotate_key (receive only) leaves the sending slot alone"),
        K("c04_rotate_slot2_send", "slot 2", T), K("c04_rotate_slot3_recv", "slot 3", T),
        K("c07_peercrypto_cycle_installs_id2", "PeerCrypto::every_second on the rotation tick: pending key installed into slot (id mod 4) of the REAL four-slot store for receiving, sending slot unchanged, confirmation sealed under the current key", timeout={"quick": 600}),
        K("c07_peercrypto_cycle_installs_id5", "same, own id 3 -> message id 5 -> slot 1", timeout={"quick": 600}),
        K("c07_peercrypto_cycle_installs_id3", "id 3 -> slot 3", T), K("c07_peercrypto_cycle_installs_id4", "id 4 -> slot 0 (the sending slot itself)", T),
        K("c07_peercrypto_cycle_installs_id1000", "id 1000 -> slot 0", T),
    ],
}

# ------------------------------------------------------------------------------------------------------------ handle_init one-step obligations
HS_ASSUME = RING_ASSUME[1:] + [
    "InitMsg::read_from (parser + signature verification) is replaced by its post-condition: it returns either an arbitrary "
    "error or an arbitrary well-formed message of the kind the harness selects, i.e. what a VERIFIED datagram can contain; "
    "InitState::send_message (InitMsg::write_to) is replaced by a recorder. Neither completes under symbolic execution (C01)",
    "ring::digest is an uninterpreted deterministic function (memo table); ring::agreement the commutative model",
]
PROPS["C14"] = {
    "files": ["src/crypto/init.rs", "src/cloud.rs", "src/messages.rs"],
    "functions": ["InitState::handle_init (Ping arm)", "InitState::check_salted_node_id_hash", "InitState::new",
                  "GenericCloud::connect_to_peers (extracted whole)"],
    "bounds": "(a) one real handle_init step of a handshake object built by the real InitState::new (arbitrary node id and salt) in each "
              "stage (fresh, awaiting pong, awaiting peng, lingering, closing) on a verified ping whose salted hash was made from "
              "the same node id with an arbitrary other salt; (b) one call of connect_to_peers, extracted textually from src/cloud.rs, "
              "on a node with 0..=2 connected peers (symbolic addresses and identities), 0..=1 known own address and a received list "
              "of 1..=3 entries (first entry two addresses, the others one; identity present or absent, all symbolic)",
    "outside": "full-mesh convergence from any connected bootstrap graph over rounds of exchange, NAT scenarios - whole-node "
               "behaviour, not reachable. Decided are the handshake-level self-connection refusal and the peer-list step (which "
               "entries of a received list are dialled / adopted); longer lists and more peers are outside the bound; what connect() "
               "itself then does (resolve, skip pending handshakes, send) is outside",
    "assumptions": HS_ASSUME + EXTRACT_ASSUME + [
        "peer-list step: the node is projected to the four things connect_to_peers touches (node_id, peers: address -> identity, "
        "own_addresses, and connect() replaced by a recorder of its calls: the real connect starts handshakes and changes neither "
        "peers nor own_addresses); the address and node-identity types are abstracted to u16 newtypes - the function uses both only through ==, "
        "contains, contains_key and copy (an edit reaching for anything else does not compile: exit 2); PeerInfo/AddrList shapes are checked against src/messages.rs by the generator (mismatch: exit 2)",
        "representation invariant assumed for the pre-state: peer-table keys distinct, no connected peer carries the node's own identity",
    ],
    "obligations": [
        K("c14_ping_from_own_node_id_is_refused", "a ping from another handshake object of the same node is refused as 'connected to self': no core, no reply, stage unchanged",
          role="c14_self_ping", timeout={"quick": 600}),
        K("c14_self_ping_refused_awaiting_pong", "same while awaiting the pong (the node dialled two of its own addresses)", role="c14_self_ping", timeout={"quick": 600}),
        K("c14_self_ping_refused_awaiting_peng", "same while awaiting the peng", role="c14_self_ping", timeout={"quick": 600}),
        K("c14_self_ping_refused_lingering", "same while lingering after success", T, role="c14_self_ping"),
        K("c14_self_ping_refused_closing", "same while closing", T, role="c14_self_ping"),
        K("c14_peer_list_step_p1_l2", "received peer list (GenericCloud::connect_to_peers, extracted whole; 1 connected peer, 2 entries of 2 addresses): every "
          "unconnected, foreign, unknown-identity entry is dialled wherever it stands; an entry under the own identity is adopted, never dialled; nothing else",
          role="c14_peer_list", timeout={"quick": 600}),
        K("c14_peer_list_step_p2_l2", "same, 2 connected peers, 2 entries", role="c14_peer_list", timeout={"quick": 600}, mem_gb=16),
        K("c14_peer_list_step_p0_l1", "same, no peer yet, 1 entry", role="c14_peer_list"),
        K("c14_peer_list_step_p2_l3", "same, 2 connected peers, 3 entries (no own address known yet)", role="c14_peer_list", timeout={"quick": 600}, mem_gb=16),
    ],
}

# ------------------------------------------------------------------------------------------------------------ C05
PROPS["C05"] = {
    "files": ["src/crypto/init.rs"],
    "functions": ["InitState::handle_init (stage logic, Ping arm)", "InitState::every_second", "InitState::repeat_last_message"],
    "bounds": "ONE real step of one handshake object from a symbolic state: (a) an end awaiting the pong receives the other "
              "end's verified ping (arbitrary salted hashes); (b) one second passes in any stage with any retry counter / "
              "linger time / last datagram; (c) a late or duplicate verified ping of a foreign node (arbitrary salted hash) reaches "
              "an object that awaits the peng, lingers after success, or is closing (stored datagram: 3 symbolic bytes)",
    "outside": "the property's quantifier: all schedules of two objects under loss, duplication, reordering, dual open to depth "
               "10, and the liveness clause - a loss-free three-message handshake of two real objects does not complete under the "
               "caps. The obligations decide the role-negotiation rule, the retransmission/give-up/linger timer and the answer to a late ping; they are "
               "not composed over schedules; agreement of keys/ciphers after completion is not decided here (C06 decides the "
               "selection function, C04 the halves)",
    "assumptions": HS_ASSUME,
    "obligations": [
        K("c05_simultaneous_open_exactly_the_smaller_hash_yields", "dual open: the end whose salted hash is smaller becomes responder (core in the lower half, pong sent); the other ignores the ping",
          timeout={"quick": 900}),
        K("c05_every_second_pong_last", "awaiting pong: retransmit the last datagram byte-identically while < 120 retries failed, then fatal + CLOSING"),
        K("c05_every_second_peng_last", "awaiting peng: same"),
        K("c05_every_second_ping_nolast", "nothing sent yet: counts, sends nothing"),
        K("c05_every_second_waiting", "initiator lingers: countdown, then CLOSING; no retransmission"),
        K("c05_every_second_closing", "a closing object is inert"),
        K("c05_late_ping_awaiting_peng_repeats_pong", "a late / duplicate verified ping of a foreign node while awaiting the peng is answered with the stored pong, byte-identical; nothing else changes",
          role="c05_late_ping", timeout={"quick": 600}),
        K("c05_late_ping_lingering_repeats_peng", "same while the initiator lingers after success: the stored peng is repeated (the peer's copy may have been lost)",
          role="c05_late_ping", timeout={"quick": 600}),
        K("c05_late_ping_closing_is_silent", "a closing object stays silent and unchanged", role="c05_late_ping", timeout={"quick": 600}),
        K("c04_half_decision_antisymmetric", "the comparison both ends evaluate is antisymmetric: exactly one yields"),
    ],
}

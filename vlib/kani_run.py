"""Kani/CBMC job runner: worker target-dir pool, resource caps, output classification, counterexample extraction."""
import fcntl
import hashlib
import json
import os
import re
import resource
import shutil
import signal
import subprocess
import time

VERIF = os.path.dirname(os.path.dirname(os.path.abspath(__file__)))
WORK = os.environ.get("VERIF_WORK", os.path.join(VERIF, ".work"))
HARNESS = os.path.join(VERIF, "harness")
REPO = os.environ.get("VERIF_REPO", "/repo")
GEN = os.path.join(WORK, "gen")
NWORKERS = int(os.environ.get("VERIF_WORKERS", "6"))
MEM_CAP_GB = float(os.environ.get("VERIF_MEM_GB", "10"))


def base_env():
    env = dict(os.environ)
    env["CARGO_NET_OFFLINE"] = "true"
    env["VERIF_REPO"] = REPO
    env["VH_GEN"] = GEN
    env.pop("RUSTFLAGS", None)
    env.pop("CARGO_TARGET_DIR", None)
    return env


def _limits(mem_gb):
    def f():
        os.setsid()
        lim = int(mem_gb * (1 << 30))
        resource.setrlimit(resource.RLIMIT_AS, (lim, lim))
        try:
            resource.setrlimit(resource.RLIMIT_STACK, (resource.RLIM_INFINITY, resource.RLIM_INFINITY))
        except (ValueError, OSError):
            pass
    return f


def run_capped(cmd, cwd, env, timeout, mem_gb=None, logfile=None):
    """Run cmd under a wall-clock cap and an address-space cap. Returns (rc, output, seconds, timed_out)."""
    t0 = time.time()
    p = subprocess.Popen(cmd, cwd=cwd, env=env, stdout=subprocess.PIPE, stderr=subprocess.STDOUT,
                         preexec_fn=_limits(mem_gb) if mem_gb else os.setsid, text=True, errors="replace")
    timed_out = False
    try:
        out, _ = p.communicate(timeout=timeout)
    except subprocess.TimeoutExpired:
        timed_out = True
        try:
            os.killpg(p.pid, signal.SIGKILL)
        except ProcessLookupError:
            pass
        out, _ = p.communicate()
    dt = time.time() - t0
    if logfile:
        with open(logfile, "w") as f:
            f.write("$ " + " ".join(cmd) + "\n" + out)
    return p.returncode, out, dt, timed_out


class Worker:
    """One Kani target directory, held under an flock so that concurrent checks never share a build directory."""

    def __init__(self):
        self.fd = None
        self.dir = None

    def __enter__(self):
        os.makedirs(WORK, exist_ok=True)
        while True:
            for i in range(NWORKERS):
                lock = os.path.join(WORK, "kani-%d.lock" % i)
                fd = os.open(lock, os.O_CREAT | os.O_RDWR, 0o644)
                try:
                    fcntl.flock(fd, fcntl.LOCK_EX | fcntl.LOCK_NB)
                except BlockingIOError:
                    os.close(fd)
                    continue
                self.fd = fd
                self.dir = os.path.join(WORK, "kani-%d" % i)
                if not os.path.isdir(self.dir):
                    seed = os.path.join(WORK, "kani-seed")
                    if os.path.isdir(seed):
                        shutil.copytree(seed, self.dir, symlinks=True)
                return self
            time.sleep(0.5)

    def __exit__(self, *a):
        fcntl.flock(self.fd, fcntl.LOCK_UN)
        os.close(self.fd)


def build_seed(log=None):
    """Compile the harness crate once (all harnesses, codegen only) into the seed target dir."""
    seed = os.path.join(WORK, "kani-seed")
    # one small harness only: code generation for all ~600 harnesses takes > 15 min and gigabytes; the dependencies and
    # the crate metadata are what the workers need warm
    cmd = ["cargo", "kani", "--target-dir", seed, "--only-codegen", "-Z", "stubbing",
           "--harness", "crypto::core::verif::c04_increment_is_plus_one", "--exact"]
    rc, out, dt, to = run_capped(cmd, HARNESS, base_env(), 1200, None, log)
    return rc == 0 and not to, out, dt


RE_SUMMARY = re.compile(r"\*\* (\d+) of (\d+) failed(?: \((\d+) (?:unreachable|undetermined)[^)]*\))?")
RE_COVER = re.compile(r"\*\* (\d+) of (\d+) cover properties satisfied")
RE_VTIME = re.compile(r"Verification Time: ([0-9.]+)s")


def parse_checks(out):
    """Per-check results from Kani's regular output: list of dicts(name,status,description,location)."""
    checks = []
    cur = None
    for line in out.splitlines():
        m = re.match(r"^Check (\d+): (\S+)", line)
        if m:
            cur = {"name": m.group(2), "status": None, "description": "", "location": ""}
            checks.append(cur)
            continue
        if cur is not None:
            s = line.strip()
            if s.startswith("- Status:"):
                cur["status"] = s.split(":", 1)[1].strip()
            elif s.startswith("- Description:"):
                cur["description"] = s.split(":", 1)[1].strip().strip('"')
            elif s.startswith("- Location:"):
                cur["location"] = s.split(":", 1)[1].strip()
    return checks


def parse_playback(out):
    """Concrete playback blocks: list of dicts(kind, text, vals) in print order."""
    blocks = []
    for m in re.finditer(r"```\n(.*?)```", out, re.S):
        body = m.group(1)
        if "concrete_vals" not in body:
            continue
        km = re.search(r"/// Check for `([^`]*)`: \"(.*)\"", body)
        kind = km.group(1) if km else "?"
        text = km.group(2) if km else ""
        vals = []
        for vm in re.finditer(r"^\s*vec!\[([0-9, ]*)\],?\s*$", body, re.M):
            s = vm.group(1).strip()
            vals.append([int(x) for x in s.split(",") if x.strip()] if s else [])
        blocks.append({"kind": kind, "text": text, "vals": vals})
    return blocks


def classify(out, rc, timed_out):
    """-> dict(verdict in PASS|FAIL|VACUOUS|UNWIND|INCONCLUSIVE, reason, counts...)"""
    r = {"verdict": "INCONCLUSIVE", "reason": "", "checks_total": 0, "checks_failed": 0, "covers_sat": 0,
         "covers_total": 0, "solver_s": None, "failed": [], "covers": {}}
    m = RE_VTIME.search(out)
    if m:
        r["solver_s"] = float(m.group(1))
    if timed_out:
        r["reason"] = "timeout"
        return r
    if re.search(r"error(\[E\d+\])?: ", out) and "VERIFICATION:-" not in out:
        r["verdict"] = "BUILD-ERROR"
        r["reason"] = "harness crate does not compile against this tree"
        return r
    if "VERIFICATION:-" not in out:
        if "out of memory" in out.lower() or "std::bad_alloc" in out or "status 139" in out or "status 6" in out or "status 134" in out:
            r["reason"] = "solver ran out of memory / crashed under the cap"
        else:
            r["reason"] = "no verdict (rc=%s)" % rc
        return r
    checks = parse_checks(out)
    m = RE_SUMMARY.search(out)
    if m:
        r["checks_failed"], r["checks_total"] = int(m.group(1)), int(m.group(2))
    m = RE_COVER.search(out)
    if m:
        r["covers_sat"], r["covers_total"] = int(m.group(1)), int(m.group(2))
    for c in checks:
        if ".cover." in c["name"] or c["name"].endswith(".cover") or re.search(r"\.cover\.\d+$", c["name"]):
            r["covers"][c["description"]] = c["status"]
    failed = [c for c in checks if c["status"] == "FAILURE"]
    undet = [c for c in checks if c["status"] in ("UNDETERMINED", "ERROR")]
    r["failed"] = failed
    witness = r["covers"].get("VH_WITNESS")
    unwind_fail = [c for c in failed if "unwinding assertion" in c["description"]]
    real_fail = [c for c in failed if "unwinding assertion" not in c["description"]]
    if "VERIFICATION:- SUCCESSFUL" in out:
        if witness == "SATISFIED":
            r["verdict"] = "PASS"
        else:
            r["verdict"] = "VACUOUS"
            r["reason"] = "reachability witness %s" % witness
        return r
    # FAILED
    if "CBMC failed" in out or "ran out of memory" in out:
        r["reason"] = "CBMC failed (memory/crash)"
        return r
    if real_fail:
        r["verdict"] = "FAIL"
        r["reason"] = "; ".join(sorted(set("%s @ %s" % (c["description"], c["location"].split(" in function")[0]) for c in real_fail)))[:600]
        return r
    if unwind_fail:
        r["verdict"] = "UNWIND"
        r["reason"] = "unwinding assertion failed: bound too small for " + ", ".join(sorted(set(c["location"].split(" in function")[-1].strip() for c in unwind_fail)))[:300]
        return r
    if undet:
        r["reason"] = "undetermined checks"
        return r
    r["reason"] = "FAILED without failed checks"
    return r


def run_harness(name, timeout, stubbing=False, extra_cfg=None, logdir=None, mem_gb=None, extra_args=None):
    """Run one harness in a pooled worker dir. Returns result dict."""
    mem_gb = mem_gb or MEM_CAP_GB
    env = base_env()
    if extra_cfg:
        env["RUSTFLAGS"] = " ".join("--cfg %s" % c for c in extra_cfg)
    from . import gen
    full = gen.all_harnesses().get(name, "crate::" + name).replace("crate::", "", 1) + "::" + name
    with Worker() as w:
        base = ["cargo", "kani", "--target-dir", w.dir, "--harness", full, "--exact", "-Z", "stubbing",
                "--no-assertion-reach-checks"]
        if extra_args:
            base += extra_args
        log = os.path.join(logdir, name + ".log") if logdir else None
        rc, out, dt, to = run_capped(base, HARNESS, env, timeout, mem_gb, log)
        r = classify(out, rc, to)
        r["harness"] = name
        r["wall_s"] = round(dt, 2)
        r["log"] = log
    r.pop("failed", None)
    return r


def extract_counterexample(name, timeout, extra_cfg=None, logdir=None, extra_args=None, mem_gb=40):
    """Second solver run asking for the concrete values of the counterexample. Run one at a time after the parallel
    phase and with a larger memory cap: trace generation over the 64 KiB message buffer is slow and memory hungry
    (it exhausted the 10 GB job cap on harnesses whose verdict run needed 3 GB), so it is only paid for failures."""
    env = base_env()
    if extra_cfg:
        env["RUSTFLAGS"] = " ".join("--cfg %s" % c for c in extra_cfg)
    from . import gen
    full = gen.all_harnesses().get(name, "crate::" + name).replace("crate::", "", 1) + "::" + name
    with Worker() as w:
        cmd = ["cargo", "kani", "--target-dir", w.dir, "--harness", full, "--exact", "-Z", "stubbing",
               "--no-assertion-reach-checks"] + (extra_args or []) + ["-Z", "concrete-playback", "--concrete-playback=print"]
        if extra_args and "--cbmc-args" in extra_args:
            i = extra_args.index("--cbmc-args")
            cmd = ["cargo", "kani", "--target-dir", w.dir, "--harness", full, "--exact", "-Z", "stubbing",
                   "--no-assertion-reach-checks", "-Z", "concrete-playback", "--concrete-playback=print"] + extra_args[:i] + extra_args[i:]
        log2 = os.path.join(logdir, name + ".cex.log") if logdir else None
        rc2, out2, dt2, to2 = run_capped(cmd, HARNESS, env, max(timeout, 900), mem_gb, log2)
    return [b for b in parse_playback(out2) if b["kind"] != "cover"], round(dt2, 2)


# ------------------------------------------------------------------------------------------------ native playback
def playback_build(profile):
    """Build the harness crate natively with the playback shim (models in place of ring); returns path or None."""
    tdir = os.path.join(WORK, "pb-target")
    env = base_env()
    env["RUSTFLAGS"] = "--cfg vh_playback"
    env["CARGO_TARGET_DIR"] = tdir
    cmd = ["cargo", "build", "--offline"] + (["--release"] if profile == "release" else [])
    lock = os.path.join(WORK, "pb.lock")
    fd = os.open(lock, os.O_CREAT | os.O_RDWR, 0o644)
    fcntl.flock(fd, fcntl.LOCK_EX)
    try:
        rc, out, dt, to = run_capped(cmd, HARNESS, env, 900, None, os.path.join(WORK, "pb-build-%s.log" % profile))
    finally:
        fcntl.flock(fd, fcntl.LOCK_UN)
        os.close(fd)
    if rc != 0:
        return None, out
    return os.path.join(tdir, "release" if profile == "release" else "debug", "vh"), out


def write_vals(path, vals, header):
    os.makedirs(os.path.dirname(path), exist_ok=True)
    with open(path, "w") as f:
        for h in header:
            f.write("# %s\n" % h)
        for v in vals:
            f.write(",".join(str(b) for b in v) + "\n")


def playback_run(harness, valsfile):
    """Execute the counterexample natively in dev and release. -> dict(profile -> reproduced|returned|assume|error)"""
    res = {}
    for profile in ("dev", "release"):
        binp, out = playback_build(profile)
        if not binp:
            res[profile] = "build-error"
            continue
        rc, o, dt, to = run_capped([binp, harness, valsfile], HARNESS, base_env(), 120, 8)
        if to:
            res[profile] = "timeout"
        elif rc == 101 or "panicked at" in o:
            res[profile] = "reproduced"
            res[profile + "_msg"] = next((l for l in o.splitlines() if "panicked at" in l), "")[:300] + " | " + \
                next((l for l in o.splitlines()[1:] if l and not l.startswith("note:") and "panicked" not in l), "")[:200]
        elif rc == 3:
            res[profile] = "assumption-violated"
        elif rc == 0 and "VH-PLAYBACK-RETURNED" in o:
            res[profile] = "returned"
        else:
            res[profile] = "error rc=%s %s" % (rc, o[-200:])
    return res

//! Verification model of `smallvec` (and, through `ivec::IVec`, of the `Vec`/`HashMap` shims in the harness crate).
//!
//! Storage is a fixed-capacity INLINE array + length: heap-backed `Vec` with a symbolic length made CBMC run out of
//! memory on `ClaimTable::set_claims` with one entry (14 M variables); inline arrays do not. Exceeding the model
//! capacity is an assertion failure ("model capacity"), never a silent cut. Assumption recorded in evidence:
//! inline-vs-heap spill of the real smallvec is unobservable through the API; collections stay within model capacity.
#![allow(clippy::all)]
use std::mem::MaybeUninit;
use std::ops::{Deref, DerefMut};

pub mod ivec {
    use super::*;

    pub struct IVec<T, const CAP: usize> {
        len: usize,
        buf: [MaybeUninit<T>; CAP],
    }

    impl<T, const CAP: usize> IVec<T, CAP> {
        #[inline]
        pub fn new() -> Self {
            IVec { len: 0, buf: unsafe { MaybeUninit::<[MaybeUninit<T>; CAP]>::uninit().assume_init() } }
        }
        #[inline]
        pub fn len(&self) -> usize {
            self.len
        }
        #[inline]
        pub fn is_empty(&self) -> bool {
            self.len == 0
        }
        #[inline]
        pub fn capacity(&self) -> usize {
            CAP
        }
        #[inline]
        pub fn as_slice(&self) -> &[T] {
            unsafe { std::slice::from_raw_parts(self.buf.as_ptr() as *const T, self.len) }
        }
        #[inline]
        pub fn as_mut_slice(&mut self) -> &mut [T] {
            unsafe { std::slice::from_raw_parts_mut(self.buf.as_mut_ptr() as *mut T, self.len) }
        }
        pub fn push(&mut self, x: T) {
            assert!(self.len < CAP, "model capacity");
            self.buf[self.len] = MaybeUninit::new(x);
            self.len += 1;
        }
        pub fn pop(&mut self) -> Option<T> {
            if self.len == 0 {
                None
            } else {
                self.len -= 1;
                Some(unsafe { self.buf[self.len].assume_init_read() })
            }
        }
        pub fn swap_remove(&mut self, i: usize) -> T {
            assert!(i < self.len, "swap_remove index out of bounds");
            let last = self.len - 1;
            self.buf.swap(i, last);
            self.len = last;
            unsafe { self.buf[last].assume_init_read() }
        }
        pub fn remove(&mut self, i: usize) -> T {
            assert!(i < self.len, "removal index out of bounds");
            let x = unsafe { self.buf[i].assume_init_read() };
            let mut j = i;
            while j + 1 < self.len {
                self.buf[j] = MaybeUninit::new(unsafe { self.buf[j + 1].assume_init_read() });
                j += 1;
            }
            self.len -= 1;
            x
        }
        pub fn insert(&mut self, i: usize, x: T) {
            assert!(i <= self.len, "insertion index out of bounds");
            assert!(self.len < CAP, "model capacity");
            let mut j = self.len;
            while j > i {
                self.buf[j] = MaybeUninit::new(unsafe { self.buf[j - 1].assume_init_read() });
                j -= 1;
            }
            self.buf[i] = MaybeUninit::new(x);
            self.len += 1;
        }
        pub fn retain_mut<F: FnMut(&mut T) -> bool>(&mut self, mut f: F) {
            let n = self.len;
            let mut w = 0;
            let mut r = 0;
            while r < n {
                let keep = f(unsafe { &mut *self.buf[r].as_mut_ptr() });
                if keep {
                    if w != r {
                        self.buf[w] = MaybeUninit::new(unsafe { self.buf[r].assume_init_read() });
                    }
                    w += 1;
                } else {
                    unsafe { std::ptr::drop_in_place(self.buf[r].as_mut_ptr()) };
                }
                r += 1;
            }
            self.len = w;
        }
        #[inline]
        pub fn retain<F: FnMut(&T) -> bool>(&mut self, mut f: F) {
            self.retain_mut(|x| f(x))
        }
        pub fn truncate(&mut self, n: usize) {
            while self.len > n {
                self.len -= 1;
                unsafe { std::ptr::drop_in_place(self.buf[self.len].as_mut_ptr()) };
            }
        }
        #[inline]
        pub fn clear(&mut self) {
            self.truncate(0)
        }
        pub fn extend_from_slice(&mut self, s: &[T])
        where
            T: Clone,
        {
            let mut i = 0;
            while i < s.len() {
                self.push(s[i].clone());
                i += 1;
            }
        }
        pub fn dedup(&mut self)
        where
            T: PartialEq,
        {
            let mut i = 1;
            while i < self.len {
                let same = { self.as_slice()[i] == self.as_slice()[i - 1] };
                if same {
                    drop(self.remove(i));
                } else {
                    i += 1;
                }
            }
        }
        pub fn from_elem(x: T, n: usize) -> Self
        where
            T: Clone,
        {
            assert!(n <= CAP, "model capacity");
            let mut v = Self::new();
            let mut i = 0;
            while i < n {
                v.buf[i] = MaybeUninit::new(x.clone());
                i += 1;
            }
            v.len = n;
            v
        }
    }
    impl<T, const CAP: usize> Drop for IVec<T, CAP> {
        fn drop(&mut self) {
            if std::mem::needs_drop::<T>() {
                self.truncate(0)
            }
        }
    }
    impl<T: Clone, const CAP: usize> Clone for IVec<T, CAP> {
        fn clone(&self) -> Self {
            let mut v = Self::new();
            let mut i = 0;
            while i < self.len {
                v.buf[i] = MaybeUninit::new(self.as_slice()[i].clone());
                i += 1;
            }
            v.len = self.len;
            v
        }
    }
    impl<T, const CAP: usize> Deref for IVec<T, CAP> {
        type Target = [T];
        #[inline]
        fn deref(&self) -> &[T] {
            self.as_slice()
        }
    }
    impl<T, const CAP: usize> DerefMut for IVec<T, CAP> {
        #[inline]
        fn deref_mut(&mut self) -> &mut [T] {
            self.as_mut_slice()
        }
    }
    pub struct IntoIter<T, const CAP: usize> {
        v: IVec<T, CAP>,
        pos: usize,
    }
    impl<T, const CAP: usize> Iterator for IntoIter<T, CAP> {
        type Item = T;
        fn next(&mut self) -> Option<T> {
            if self.pos < self.v.len {
                let x = unsafe { self.v.buf[self.pos].assume_init_read() };
                self.pos += 1;
                Some(x)
            } else {
                None
            }
        }
    }
    impl<T, const CAP: usize> Drop for IntoIter<T, CAP> {
        fn drop(&mut self) {
            if std::mem::needs_drop::<T>() {
                while self.pos < self.v.len {
                    unsafe { std::ptr::drop_in_place(self.v.buf[self.pos].as_mut_ptr()) };
                    self.pos += 1;
                }
            }
            self.v.len = 0;
        }
    }
    impl<T, const CAP: usize> IntoIterator for IVec<T, CAP> {
        type Item = T;
        type IntoIter = IntoIter<T, CAP>;
        fn into_iter(self) -> IntoIter<T, CAP> {
            IntoIter { v: self, pos: 0 }
        }
    }
    impl<'a, T, const CAP: usize> IntoIterator for &'a IVec<T, CAP> {
        type Item = &'a T;
        type IntoIter = std::slice::Iter<'a, T>;
        fn into_iter(self) -> Self::IntoIter {
            self.as_slice().iter()
        }
    }
    impl<'a, T, const CAP: usize> IntoIterator for &'a mut IVec<T, CAP> {
        type Item = &'a mut T;
        type IntoIter = std::slice::IterMut<'a, T>;
        fn into_iter(self) -> Self::IntoIter {
            self.as_mut_slice().iter_mut()
        }
    }
    impl<T, const CAP: usize> std::iter::FromIterator<T> for IVec<T, CAP> {
        fn from_iter<I: IntoIterator<Item = T>>(it: I) -> Self {
            let mut v = Self::new();
            for x in it {
                v.push(x);
            }
            v
        }
    }
    impl<T, const CAP: usize> Extend<T> for IVec<T, CAP> {
        fn extend<I: IntoIterator<Item = T>>(&mut self, it: I) {
            for x in it {
                self.push(x);
            }
        }
    }
    impl<T: std::fmt::Debug, const CAP: usize> std::fmt::Debug for IVec<T, CAP> {
        fn fmt(&self, f: &mut std::fmt::Formatter) -> std::fmt::Result {
            self.as_slice().fmt(f)
        }
    }
    impl<T: PartialEq, const CAP: usize> PartialEq for IVec<T, CAP> {
        fn eq(&self, o: &Self) -> bool {
            self.as_slice() == o.as_slice()
        }
    }
}

/// model capacity per inline size: generous enough for what vpncloud can put in (e.g. 7 + 7 addresses in an AddrList,
/// 20 peers in a PeerList, 255-byte keys in a rotation message)
pub unsafe trait Array {
    type Item;
    type Store;
    fn size() -> usize;
    fn new_store() -> Self::Store;
}
pub trait Store<T> {
    fn s(&self) -> &[T];
    fn sm(&mut self) -> &mut [T];
    fn push(&mut self, x: T);
    fn pop(&mut self) -> Option<T>;
    fn swap_remove(&mut self, i: usize) -> T;
    fn remove(&mut self, i: usize) -> T;
    fn insert(&mut self, i: usize, x: T);
    fn retain_mut(&mut self, f: &mut dyn FnMut(&mut T) -> bool);
    fn truncate(&mut self, n: usize);
    fn cap(&self) -> usize;
}
impl<T, const CAP: usize> Store<T> for ivec::IVec<T, CAP> {
    #[inline]
    fn s(&self) -> &[T] {
        self.as_slice()
    }
    #[inline]
    fn sm(&mut self) -> &mut [T] {
        self.as_mut_slice()
    }
    #[inline]
    fn push(&mut self, x: T) {
        ivec::IVec::push(self, x)
    }
    #[inline]
    fn pop(&mut self) -> Option<T> {
        ivec::IVec::pop(self)
    }
    #[inline]
    fn swap_remove(&mut self, i: usize) -> T {
        ivec::IVec::swap_remove(self, i)
    }
    #[inline]
    fn remove(&mut self, i: usize) -> T {
        ivec::IVec::remove(self, i)
    }
    #[inline]
    fn insert(&mut self, i: usize, x: T) {
        ivec::IVec::insert(self, i, x)
    }
    #[inline]
    fn retain_mut(&mut self, f: &mut dyn FnMut(&mut T) -> bool) {
        ivec::IVec::retain_mut(self, |x| f(x))
    }
    #[inline]
    fn truncate(&mut self, n: usize) {
        ivec::IVec::truncate(self, n)
    }
    #[inline]
    fn cap(&self) -> usize {
        CAP
    }
}
macro_rules! arr {
    ($($n:expr => $cap:expr),*) => {$(
        unsafe impl<T> Array for [T; $n] {
            type Item = T;
            type Store = ivec::IVec<T, $cap>;
            fn size() -> usize { $n }
            fn new_store() -> Self::Store { ivec::IVec::new() }
        }
    )*};
}
arr!(1 => 8, 2 => 8, 3 => 8, 4 => 16, 5 => 16, 8 => 16, 10 => 16, 16 => 24, 20 => 24, 32 => 256, 64 => 64, 96 => 256, 128 => 128, 256 => 256);

pub struct SmallVec<A: Array>
where
    A::Store: Store<A::Item>,
{
    v: A::Store,
}

impl<A: Array> SmallVec<A>
where
    A::Store: Store<A::Item>,
{
    #[inline]
    pub fn new() -> Self {
        SmallVec { v: A::new_store() }
    }
    #[inline]
    pub fn with_capacity(_n: usize) -> Self {
        Self::new()
    }
    pub fn from_vec(v: Vec<A::Item>) -> Self {
        let mut s = Self::new();
        for x in v {
            s.v.push(x);
        }
        s
    }
    pub fn from_elem(elem: A::Item, n: usize) -> Self
    where
        A::Item: Clone,
    {
        let mut s = Self::new();
        assert!(n <= s.v.cap(), "model capacity");
        let mut i = 0;
        while i < n {
            s.v.push(elem.clone());
            i += 1;
        }
        s
    }
    pub fn from_slice(sl: &[A::Item]) -> Self
    where
        A::Item: Copy,
    {
        let mut s = Self::new();
        s.extend_from_slice(sl);
        s
    }
    #[inline]
    pub fn push(&mut self, x: A::Item) {
        self.v.push(x)
    }
    #[inline]
    pub fn pop(&mut self) -> Option<A::Item> {
        self.v.pop()
    }
    #[inline]
    pub fn len(&self) -> usize {
        self.v.s().len()
    }
    #[inline]
    pub fn is_empty(&self) -> bool {
        self.v.s().is_empty()
    }
    #[inline]
    pub fn clear(&mut self) {
        self.v.truncate(0)
    }
    #[inline]
    pub fn truncate(&mut self, n: usize) {
        self.v.truncate(n)
    }
    #[inline]
    pub fn swap_remove(&mut self, i: usize) -> A::Item {
        self.v.swap_remove(i)
    }
    #[inline]
    pub fn remove(&mut self, i: usize) -> A::Item {
        self.v.remove(i)
    }
    #[inline]
    pub fn insert(&mut self, i: usize, x: A::Item) {
        self.v.insert(i, x)
    }
    #[inline]
    pub fn retain<F: FnMut(&mut A::Item) -> bool>(&mut self, mut f: F) {
        self.v.retain_mut(&mut f)
    }
    pub fn dedup(&mut self)
    where
        A::Item: PartialEq,
    {
        let mut i = 1;
        while i < self.len() {
            let same = { self.v.s()[i] == self.v.s()[i - 1] };
            if same {
                drop(self.v.remove(i));
            } else {
                i += 1;
            }
        }
    }
    pub fn extend_from_slice(&mut self, s: &[A::Item])
    where
        A::Item: Copy,
    {
        let mut i = 0;
        while i < s.len() {
            self.v.push(s[i]);
            i += 1;
        }
    }
    #[inline]
    pub fn as_slice(&self) -> &[A::Item] {
        self.v.s()
    }
    #[inline]
    pub fn as_mut_slice(&mut self) -> &mut [A::Item] {
        self.v.sm()
    }
    pub fn to_vec(&self) -> Vec<A::Item>
    where
        A::Item: Clone,
    {
        self.v.s().to_vec()
    }
    pub fn into_vec(self) -> Vec<A::Item> {
        self.into_iter().collect()
    }
    #[inline]
    pub fn capacity(&self) -> usize {
        self.v.cap()
    }
}

impl<A: Array> Default for SmallVec<A>
where
    A::Store: Store<A::Item>,
{
    fn default() -> Self {
        Self::new()
    }
}
impl<A: Array> Deref for SmallVec<A>
where
    A::Store: Store<A::Item>,
{
    type Target = [A::Item];
    #[inline]
    fn deref(&self) -> &[A::Item] {
        self.v.s()
    }
}
impl<A: Array> DerefMut for SmallVec<A>
where
    A::Store: Store<A::Item>,
{
    #[inline]
    fn deref_mut(&mut self) -> &mut [A::Item] {
        self.v.sm()
    }
}
impl<A: Array> AsRef<[A::Item]> for SmallVec<A>
where
    A::Store: Store<A::Item>,
{
    #[inline]
    fn as_ref(&self) -> &[A::Item] {
        self.v.s()
    }
}
impl<A: Array> AsMut<[A::Item]> for SmallVec<A>
where
    A::Store: Store<A::Item>,
{
    #[inline]
    fn as_mut(&mut self) -> &mut [A::Item] {
        self.v.sm()
    }
}
impl<A: Array> Clone for SmallVec<A>
where
    A::Store: Store<A::Item>,
    A::Item: Clone,
{
    fn clone(&self) -> Self {
        let mut s = Self::new();
        let mut i = 0;
        while i < self.len() {
            s.v.push(self.v.s()[i].clone());
            i += 1;
        }
        s
    }
}
impl<A: Array> std::fmt::Debug for SmallVec<A>
where
    A::Store: Store<A::Item>,
    A::Item: std::fmt::Debug,
{
    fn fmt(&self, f: &mut std::fmt::Formatter) -> std::fmt::Result {
        self.v.s().fmt(f)
    }
}
impl<A: Array, B: Array> PartialEq<SmallVec<B>> for SmallVec<A>
where
    A::Store: Store<A::Item>,
    B::Store: Store<B::Item>,
    A::Item: PartialEq<B::Item>,
{
    fn eq(&self, o: &SmallVec<B>) -> bool {
        self.v.s() == o.v.s()
    }
}
impl<A: Array> Eq for SmallVec<A>
where
    A::Store: Store<A::Item>,
    A::Item: Eq,
{
}
impl<A: Array> std::hash::Hash for SmallVec<A>
where
    A::Store: Store<A::Item>,
    A::Item: std::hash::Hash,
{
    fn hash<H: std::hash::Hasher>(&self, h: &mut H) {
        self.v.s().hash(h)
    }
}
pub struct IntoIter<A: Array>
where
    A::Store: Store<A::Item>,
{
    v: A::Store,
    pos: usize,
}
impl<A: Array> Iterator for IntoIter<A>
where
    A::Store: Store<A::Item>,
{
    type Item = A::Item;
    fn next(&mut self) -> Option<A::Item> {
        // front removal by index: elements are read out in order; the store forgets them as `pos` advances
        if self.pos < self.v.s().len() {
            let x = unsafe { std::ptr::read(&self.v.s()[self.pos] as *const A::Item) };
            self.pos += 1;
            Some(x)
        } else {
            None
        }
    }
}
impl<A: Array> Drop for IntoIter<A>
where
    A::Store: Store<A::Item>,
{
    fn drop(&mut self) {
        // elements before `pos` were moved out; drop the rest, then make the store forget everything
        let n = self.v.s().len();
        while self.pos < n {
            unsafe { std::ptr::drop_in_place(&mut self.v.sm()[self.pos] as *mut A::Item) };
            self.pos += 1;
        }
        // forget without dropping: set length to zero by leaking
        let store = std::mem::replace(&mut self.v, A::new_store());
        std::mem::forget(store);
    }
}
impl<A: Array> IntoIterator for SmallVec<A>
where
    A::Store: Store<A::Item>,
{
    type Item = A::Item;
    type IntoIter = IntoIter<A>;
    fn into_iter(self) -> IntoIter<A> {
        let me = std::mem::ManuallyDrop::new(self);
        IntoIter { v: unsafe { std::ptr::read(&me.v) }, pos: 0 }
    }
}
impl<'a, A: Array> IntoIterator for &'a SmallVec<A>
where
    A::Store: Store<A::Item>,
{
    type Item = &'a A::Item;
    type IntoIter = std::slice::Iter<'a, A::Item>;
    fn into_iter(self) -> Self::IntoIter {
        self.v.s().iter()
    }
}
impl<'a, A: Array> IntoIterator for &'a mut SmallVec<A>
where
    A::Store: Store<A::Item>,
{
    type Item = &'a mut A::Item;
    type IntoIter = std::slice::IterMut<'a, A::Item>;
    fn into_iter(self) -> Self::IntoIter {
        self.v.sm().iter_mut()
    }
}
impl<A: Array> std::iter::FromIterator<A::Item> for SmallVec<A>
where
    A::Store: Store<A::Item>,
{
    fn from_iter<I: IntoIterator<Item = A::Item>>(it: I) -> Self {
        let mut s = Self::new();
        for x in it {
            s.v.push(x);
        }
        s
    }
}
impl<A: Array> Extend<A::Item> for SmallVec<A>
where
    A::Store: Store<A::Item>,
{
    fn extend<I: IntoIterator<Item = A::Item>>(&mut self, it: I) {
        for x in it {
            self.v.push(x);
        }
    }
}
impl<'a, A: Array> From<&'a [A::Item]> for SmallVec<A>
where
    A::Store: Store<A::Item>,
    A::Item: Clone,
{
    fn from(sl: &'a [A::Item]) -> Self {
        let mut s = Self::new();
        let mut i = 0;
        while i < sl.len() {
            s.v.push(sl[i].clone());
            i += 1;
        }
        s
    }
}
impl<A: Array> From<Vec<A::Item>> for SmallVec<A>
where
    A::Store: Store<A::Item>,
{
    fn from(v: Vec<A::Item>) -> Self {
        Self::from_vec(v)
    }
}
impl<A: Array<Item = u8>> std::io::Write for SmallVec<A>
where
    A::Store: Store<u8>,
{
    fn write(&mut self, b: &[u8]) -> std::io::Result<usize> {
        self.extend_from_slice(b);
        Ok(b.len())
    }
    fn flush(&mut self) -> std::io::Result<()> {
        Ok(())
    }
}

#[macro_export]
macro_rules! smallvec {
    () => ( $crate::SmallVec::new() );
    ($elem:expr; $n:expr) => ( $crate::SmallVec::from_elem($elem, $n) );
    ($($x:expr),+ $(,)?) => ( {
        let mut v = $crate::SmallVec::new();
        $( v.push($x); )+
        v
    } );
}

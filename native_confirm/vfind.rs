// Level-2 confirmation tests for recorded findings: each test states the property clause and FAILS (or panics) on a
// tree that has the defect, passes on a repaired tree. Run against the real build by native_confirm/run.sh.
use super::common::*;
use crate::{config::Config, types::Mode};
use std::net::SocketAddr;

fn two_connected_nodes() -> (TapSimulator, SocketAddr, SocketAddr) {
    let config = Config { device_type: Type::Tap, mode: Mode::Switch, ..Config::default() };
    let mut sim = TapSimulator::new();
    let node1 = sim.add_node(false, &config);
    let node2 = sim.add_node(false, &config);
    sim.connect(node1, node2);
    sim.simulate_all_messages();
    assert!(sim.is_connected(node1, node2));
    assert!(sim.is_connected(node2, node1));
    (sim, node1, node2)
}

/// C08 / F1: a datagram of 1..23 bytes (first byte != 0xff) with the spoofed source address of an established
/// peer must be dropped, not abort the node.
#[test]
fn vfind_c08_short_datagram_from_peer_address() {
    for len in [1usize, 2, 8, 23] {
        let (mut sim, node1, node2) = two_connected_nodes();
        let node = sim.get_node(node2);
        assert!(node.socket().put_inbound(node1, vec![0u8; len]));
        node.trigger_socket_event();
        assert!(sim.is_connected(node2, node1));
    }
}

fn one_sealed_data_datagram(sim: &mut TapSimulator, from: SocketAddr) -> Vec<u8> {
    let frame = vec![6, 5, 4, 3, 2, 1, 1, 2, 3, 4, 5, 6, 1, 2, 3, 4, 5, 6, 7, 8];
    let node = sim.get_node(from);
    node.device().put_inbound(frame);
    node.trigger_device_event();
    let (_dst, data) = node.socket().pop_outbound().expect("a datagram was sent");
    data
}

/// C02 / F12: a sealed datagram whose key-id byte was altered (bits 2..7) must be dropped, nothing delivered.
#[test]
fn vfind_c02_keyid_high_bits_malleable() {
    for flip in [0x04u8, 0x80, 0xfc] {
        let (mut sim, node1, node2) = two_connected_nodes();
        let mut data = one_sealed_data_datagram(&mut sim, node1);
        data[0] ^= flip;
        let node = sim.get_node(node2);
        assert!(node.socket().put_inbound(node1, data));
        node.trigger_socket_event();
        assert!(node.device().pop_outbound().is_none(), "altered datagram (key id ^ {:#x}) was delivered", flip);
    }
    // control: the unaltered datagram is delivered
    let (mut sim, node1, node2) = two_connected_nodes();
    let data = one_sealed_data_datagram(&mut sim, node1);
    let node = sim.get_node(node2);
    assert!(node.socket().put_inbound(node1, data));
    node.trigger_socket_event();
    assert!(node.device().pop_outbound().is_some());
}

/// C13 / F2: priority-tagged frames (802.1Q tag with VLAN id 0) count as untagged
#[test]
fn vfind_c13_vlan0_is_untagged() {
    for tci_hi in [0x00u8, 0xe0, 0x10] {
        let tagged = [6, 5, 4, 3, 2, 1, 1, 2, 3, 4, 5, 6, 0x81, 0x00, tci_hi, 0x00, 0x08, 0x00, 9, 9];
        let plain = [6, 5, 4, 3, 2, 1, 1, 2, 3, 4, 5, 6, 0x08, 0x00, 9, 9];
        let (s1, d1) = Frame::parse(&tagged).unwrap();
        let (s2, d2) = Frame::parse(&plain).unwrap();
        assert_eq!(s1, s2);
        assert_eq!(d1, d2);
        assert_eq!(s1.len, 6);
    }
}

/// C12 / F3: after a shrinking announcement [A, B] -> [A] the dropped claim B disappears at once
#[test]
fn vfind_c12_shrinking_announcement_drops_claims() {
    use crate::{table::ClaimTable, types::Range};
    use std::str::FromStr;
    MockTimeSource::set_time(1000);
    let mut t = ClaimTable::<MockTimeSource>::new(10, 300);
    let p: SocketAddr = "1.2.3.4:5".parse().unwrap();
    let a = Range::from_str("10.0.1.0/24").unwrap();
    let b = Range::from_str("10.0.2.0/24").unwrap();
    t.set_claims(p, smallvec::smallvec![a, b]);
    assert_eq!(t.claim_len(), 2);
    t.set_claims(p, smallvec::smallvec![a]);
    assert_eq!(t.claim_len(), 1, "withdrawn claim is still in the table");
    assert_eq!(t.lookup(crate::types::Address::from_str("10.0.2.7").unwrap()), None);
}

/// C06 / F11: two ends whose lists contain the same ciphers with equal speeds but in different order select the
/// same cipher
#[test]
fn vfind_c06_tie_with_different_list_order() {
    use crate::crypto::{Algorithms, MessageResult, PeerCrypto};
    use crate::util::MsgBuffer;
    use ring::aead::{AES_128_GCM, AES_256_GCM, CHACHA20_POLY1305};
    use ring::signature::{Ed25519KeyPair, KeyPair};
    use std::sync::Arc;
    let kp = Arc::new(Ed25519KeyPair::from_seed_unchecked(&[9u8; 32]).unwrap());
    let mut pk = [0u8; 32];
    pk.clone_from_slice(kp.public_key().as_ref());
    let trusted: Arc<[[u8; 32]]> = Arc::new([pk]);
    let a1 = Algorithms { algorithm_speeds: smallvec::smallvec![(&AES_128_GCM, 100.0), (&AES_256_GCM, 100.0), (&CHACHA20_POLY1305, 50.0)], allow_unencrypted: false };
    let a2 = Algorithms { algorithm_speeds: smallvec::smallvec![(&AES_256_GCM, 100.0), (&AES_128_GCM, 100.0), (&CHACHA20_POLY1305, 50.0)], allow_unencrypted: false };
    let mut n1: PeerCrypto<Vec<u8>> = PeerCrypto::new([1; 16], vec![], kp.clone(), trusted.clone(), a1);
    let mut n2: PeerCrypto<Vec<u8>> = PeerCrypto::new([2; 16], vec![], kp, trusted, a2);
    let mut msg = MsgBuffer::new(16);
    n1.initialize(&mut msg).unwrap();
    assert_eq!(n2.handle_message(&mut msg).unwrap(), MessageResult::Reply);
    // with different choices the pong cannot be opened by n1
    let r = n1.handle_message(&mut msg);
    assert!(r.is_ok(), "handshake failed: the two ends chose different ciphers");
    n2.handle_message(&mut msg).unwrap();
    assert_eq!(n1.algorithm_name(), n2.algorithm_name());
}

/// C20 / F10: prefix length 0 yields the all-zero netmask, not a panic
#[test]
fn vfind_c20_prefix_zero() {
    let (ip, mask) = crate::parse_ip_netmask("10.0.0.1/0").unwrap();
    assert_eq!(ip, std::net::Ipv4Addr::new(10, 0, 0, 1));
    assert_eq!(mask, std::net::Ipv4Addr::new(0, 0, 0, 0));
    assert_eq!(crate::parse_ip_netmask("10.0.0.1/32").unwrap().1, std::net::Ipv4Addr::new(255, 255, 255, 255));
    assert!(crate::parse_ip_netmask("10.0.0.1/33").is_err());
}

/// C15 / F5: peer timeouts below 120 s are configurable; nodes using them must run and must announce more often than
/// the smallest advertised timeout
#[test]
fn vfind_c15_small_peer_timeouts() {
    for own in [10u32, 100, 119, 120, 300] {
        for other in [10u32, 60, 119, 300] {
            let c1 = Config { device_type: Type::Tap, mode: Mode::Switch, peer_timeout: own, ..Config::default() };
            let c2 = Config { device_type: Type::Tap, mode: Mode::Switch, peer_timeout: other, ..Config::default() };
            let mut sim = TapSimulator::new();
            let node1 = sim.add_node(false, &c1);
            let node2 = sim.add_node(false, &c2);
            sim.connect(node1, node2);
            sim.simulate_all_messages();
            assert!(sim.is_connected(node1, node2));
            // run for three times the larger timeout: healthy peers never time out
            sim.simulate_time(3 * std::cmp::max(own, other) as Time + 10);
            assert!(sim.is_connected(node1, node2), "own={} other={}: node1 lost node2", own, other);
            assert!(sim.is_connected(node2, node1), "own={} other={}: node2 lost node1", own, other);
        }
    }
}

/// C18 / F6: every key pair printed by key generation is accepted when configured (also when the seed or the public
/// key starts with a zero byte, which the number-like text form does not represent)
#[test]
fn vfind_c18_generated_keys_with_leading_zero_byte() {
    use crate::crypto::{Config as CryptoCfg, Crypto};
    use crate::util::from_base62;
    let mut seen_short_priv = false;
    let mut seen_short_pub = false;
    for i in 0..3000 {
        let (privkey, pubkey) = Crypto::generate_keypair(Some(&format!("vfind-password-{}", i)));
        let short_priv = from_base62(&privkey).unwrap().len() < 32;
        let short_pub = from_base62(&pubkey).unwrap().len() < 32;
        if !short_priv && !short_pub {
            continue;
        }
        seen_short_priv |= short_priv;
        seen_short_pub |= short_pub;
        let cfg = CryptoCfg { private_key: Some(privkey.clone()), public_key: Some(pubkey.clone()), trusted_keys: vec![pubkey.clone()], ..Default::default() };
        assert!(Crypto::new([0; 16], &cfg).is_ok(), "generated key pair rejected: {} / {}", privkey, pubkey);
        let cfg = CryptoCfg { private_key: Some(privkey.clone()), ..Default::default() };
        assert!(Crypto::new([0; 16], &cfg).is_ok(), "generated private key rejected: {}", privkey);
        assert_eq!(Crypto::public_key_from_private_key(&privkey).unwrap(), pubkey);
        if seen_short_priv && seen_short_pub {
            break;
        }
    }
    assert!(seen_short_priv && seen_short_pub, "no key with a leading zero byte found in the sample");
}

/// C14 / F13: a node that dials one of its own addresses (not known to be its own) meets itself through a SECOND
/// handshake object with a different salt; the handshake must abort with "connected to self".
#[test]
fn vfind_c14_node_meets_itself_through_second_handshake_object() {
    use crate::crypto::{Config as CryptoCfg, Crypto, MessageResult};
    use crate::util::MsgBuffer;
    let cfg = CryptoCfg { password: Some("vfind".to_string()), ..Default::default() };
    let crypto = Crypto::new([42; 16], &cfg).unwrap();
    // the object created by connect_sock() and the one created by handle_net_message() for an unknown sender
    let mut dialler = crypto.peer_instance(vec![1u8]);
    let mut responder = crypto.peer_instance(vec![1u8]);
    let mut msg = MsgBuffer::new(16);
    dialler.initialize(&mut msg).unwrap();
    let res = responder.handle_message(&mut msg);
    assert!(res.is_err(), "the node answered its own ping: {:?}", res.map(|r| r == MessageResult::Reply));
}

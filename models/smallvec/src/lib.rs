//! Verification model of `smallvec`: a newtype over `Vec<T>` exposing the API subset vpncloud uses.
//! Assumption recorded in evidence: inline-vs-heap spill is unobservable through the API.
use std::ops::{Deref, DerefMut};

pub unsafe trait Array {
    type Item;
    fn size() -> usize;
}
unsafe impl<T, const N: usize> Array for [T; N] {
    type Item = T;
    fn size() -> usize {
        N
    }
}

pub struct SmallVec<A: Array> {
    v: Vec<A::Item>,
}

impl<A: Array> SmallVec<A> {
    #[inline]
    pub fn new() -> Self {
        SmallVec { v: Vec::new() }
    }
    #[inline]
    pub fn with_capacity(n: usize) -> Self {
        SmallVec { v: Vec::with_capacity(n) }
    }
    #[inline]
    pub fn from_vec(v: Vec<A::Item>) -> Self {
        SmallVec { v }
    }
    #[inline]
    pub fn from_elem(elem: A::Item, n: usize) -> Self
    where
        A::Item: Clone,
    {
        SmallVec { v: vec![elem; n] }
    }
    #[inline]
    pub fn from_slice(s: &[A::Item]) -> Self
    where
        A::Item: Copy,
    {
        SmallVec { v: s.to_vec() }
    }
    #[inline]
    pub fn push(&mut self, x: A::Item) {
        self.v.push(x)
    }
    #[inline]
    pub fn pop(&mut self) -> Option<A::Item> {
        self.v.pop()
    }
    #[inline]
    pub fn len(&self) -> usize {
        self.v.len()
    }
    #[inline]
    pub fn is_empty(&self) -> bool {
        self.v.is_empty()
    }
    #[inline]
    pub fn clear(&mut self) {
        self.v.clear()
    }
    #[inline]
    pub fn truncate(&mut self, n: usize) {
        self.v.truncate(n)
    }
    #[inline]
    pub fn swap_remove(&mut self, i: usize) -> A::Item {
        self.v.swap_remove(i)
    }
    #[inline]
    pub fn remove(&mut self, i: usize) -> A::Item {
        self.v.remove(i)
    }
    #[inline]
    pub fn insert(&mut self, i: usize, x: A::Item) {
        self.v.insert(i, x)
    }
    #[inline]
    pub fn retain<F: FnMut(&mut A::Item) -> bool>(&mut self, mut f: F) {
        self.v.retain_mut(|x| f(x))
    }
    #[inline]
    pub fn dedup(&mut self)
    where
        A::Item: PartialEq,
    {
        self.v.dedup()
    }
    #[inline]
    pub fn extend_from_slice(&mut self, s: &[A::Item])
    where
        A::Item: Copy,
    {
        self.v.extend_from_slice(s)
    }
    #[inline]
    pub fn as_slice(&self) -> &[A::Item] {
        &self.v
    }
    #[inline]
    pub fn as_mut_slice(&mut self) -> &mut [A::Item] {
        &mut self.v
    }
    #[inline]
    pub fn into_vec(self) -> Vec<A::Item> {
        self.v
    }
    #[inline]
    pub fn to_vec(&self) -> Vec<A::Item>
    where
        A::Item: Clone,
    {
        self.v.clone()
    }
    #[inline]
    pub fn capacity(&self) -> usize {
        self.v.capacity()
    }
}

impl<A: Array> Default for SmallVec<A> {
    fn default() -> Self {
        Self::new()
    }
}
impl<A: Array> Deref for SmallVec<A> {
    type Target = [A::Item];
    #[inline]
    fn deref(&self) -> &[A::Item] {
        &self.v
    }
}
impl<A: Array> DerefMut for SmallVec<A> {
    #[inline]
    fn deref_mut(&mut self) -> &mut [A::Item] {
        &mut self.v
    }
}
impl<A: Array> AsRef<[A::Item]> for SmallVec<A> {
    #[inline]
    fn as_ref(&self) -> &[A::Item] {
        &self.v
    }
}
impl<A: Array> AsMut<[A::Item]> for SmallVec<A> {
    #[inline]
    fn as_mut(&mut self) -> &mut [A::Item] {
        &mut self.v
    }
}
impl<A: Array> Clone for SmallVec<A>
where
    A::Item: Clone,
{
    fn clone(&self) -> Self {
        SmallVec { v: self.v.clone() }
    }
}
impl<A: Array> std::fmt::Debug for SmallVec<A>
where
    A::Item: std::fmt::Debug,
{
    fn fmt(&self, f: &mut std::fmt::Formatter) -> std::fmt::Result {
        self.v.fmt(f)
    }
}
impl<A: Array, B: Array> PartialEq<SmallVec<B>> for SmallVec<A>
where
    A::Item: PartialEq<B::Item>,
{
    fn eq(&self, o: &SmallVec<B>) -> bool {
        self.v[..] == o.v[..]
    }
}
impl<A: Array> Eq for SmallVec<A> where A::Item: Eq {}
impl<A: Array> std::hash::Hash for SmallVec<A>
where
    A::Item: std::hash::Hash,
{
    fn hash<H: std::hash::Hasher>(&self, h: &mut H) {
        self.v.hash(h)
    }
}
impl<A: Array> IntoIterator for SmallVec<A> {
    type Item = A::Item;
    type IntoIter = std::vec::IntoIter<A::Item>;
    fn into_iter(self) -> Self::IntoIter {
        self.v.into_iter()
    }
}
impl<'a, A: Array> IntoIterator for &'a SmallVec<A> {
    type Item = &'a A::Item;
    type IntoIter = std::slice::Iter<'a, A::Item>;
    fn into_iter(self) -> Self::IntoIter {
        self.v.iter()
    }
}
impl<'a, A: Array> IntoIterator for &'a mut SmallVec<A> {
    type Item = &'a mut A::Item;
    type IntoIter = std::slice::IterMut<'a, A::Item>;
    fn into_iter(self) -> Self::IntoIter {
        self.v.iter_mut()
    }
}
impl<A: Array> std::iter::FromIterator<A::Item> for SmallVec<A> {
    fn from_iter<I: IntoIterator<Item = A::Item>>(it: I) -> Self {
        SmallVec { v: it.into_iter().collect() }
    }
}
impl<A: Array> Extend<A::Item> for SmallVec<A> {
    fn extend<I: IntoIterator<Item = A::Item>>(&mut self, it: I) {
        self.v.extend(it)
    }
}
impl<'a, A: Array> From<&'a [A::Item]> for SmallVec<A>
where
    A::Item: Clone,
{
    fn from(s: &'a [A::Item]) -> Self {
        SmallVec { v: s.to_vec() }
    }
}
impl<A: Array> From<Vec<A::Item>> for SmallVec<A> {
    fn from(v: Vec<A::Item>) -> Self {
        SmallVec { v }
    }
}
impl<A: Array<Item = u8>> std::io::Write for SmallVec<A> {
    fn write(&mut self, b: &[u8]) -> std::io::Result<usize> {
        self.v.extend_from_slice(b);
        Ok(b.len())
    }
    fn flush(&mut self) -> std::io::Result<()> {
        Ok(())
    }
}

#[macro_export]
macro_rules! smallvec {
    () => ( $crate::SmallVec::new() );
    ($elem:expr; $n:expr) => ( $crate::SmallVec::from_elem($elem, $n) );
    ($($x:expr),+ $(,)?) => ( $crate::SmallVec::from_vec(vec![$($x),+]) );
}

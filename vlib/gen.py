"""Generated inputs of the harness crate: items extracted textually from /repo (main.rs cannot be a module) and
the playback dispatch table. Regenerated from /repo's working tree on every run; written only when changed."""
import hashlib
import os
import re

from . import kani_run as K

HMODS = {
    "util_h.rs": "crate::util::verif",
    "types_h.rs": "crate::types::verif",
    "payload_h.rs": "crate::payload::verif",
    "table_h.rs": "crate::table::verif",
    "messages_h.rs": "crate::messages::verif",
    "common_crypto_h.rs": "crate::crypto::common::verif",
    "core_h.rs": "crate::crypto::core::verif",
    "init_h.rs": "crate::crypto::init::verif",
    "rotate_h.rs": "crate::crypto::rotate::verif",
    "beacon_h.rs": "crate::beacon::verif",
    "extracted_h.rs": "crate::extracted",
}

EXPECTED_CRYPTO_MOD = ["mod common;", "mod core;", "mod init;", "mod rotate;",
                       "pub use self::core::{EXTRA_LEN, TAG_LEN};", "pub use common::*;"]


def harness_names(hfile):
    src = open(hfile).read()
    names = re.findall(r"pub fn (c\d\d_\w+)\(\)", src)
    for m in re.finditer(r"\b\w+_inst!\s*\((.*?)\)\s*;", src, re.S):
        names += re.findall(r"\b(c\d\d_\w+)\b", m.group(1))
    seen, out = set(), []
    for n in names:
        if n not in seen:
            seen.add(n)
            out.append(n)
    return out


def all_harnesses():
    res = {}
    for h, mod in HMODS.items():
        p = os.path.join(K.HARNESS, "h", h)
        if os.path.exists(p):
            for n in harness_names(p):
                res[n] = mod
    return res


def extract_item(src, start_regex):
    """Brace-matched item starting at the first match of start_regex (comments/strings without braces assumed)."""
    m = re.search(start_regex, src, re.M)
    if not m:
        return None
    i = src.index("{", m.end() - 1) if src[m.end() - 1] != "{" else m.end() - 1
    depth, j = 0, i
    in_str = False
    while j < len(src):
        c = src[j]
        if in_str:
            if c == "\\":
                j += 1
            elif c == '"':
                in_str = False
        else:
            if c == '"':
                in_str = True
            elif c == "/" and src[j:j + 2] == "//":
                j = src.index("\n", j)
                continue
            elif c == "'" and re.match(r"'(\\.|[^\\'])'", src[j:j + 4]):
                j += len(re.match(r"'(\\.|[^\\'])'", src[j:j + 4]).group(0))
                continue
            elif c == "{":
                depth += 1
            elif c == "}":
                depth -= 1
                if depth == 0:
                    return src[m.start():j + 1]
        j += 1
    return None


def write_if_changed(path, text):
    os.makedirs(os.path.dirname(path), exist_ok=True)
    if os.path.exists(path) and open(path).read() == text:
        return False
    tmp = path + ".tmp%d" % os.getpid()
    with open(tmp, "w") as f:
        f.write(text)
    os.replace(tmp, path)
    return True


def generate():
    """-> (ok, problems[])"""
    problems = []
    repo = K.REPO
    # 1. crypto/mod.rs mirror check
    modtxt = open(os.path.join(repo, "src/crypto/mod.rs")).read()
    lines = [l.strip() for l in modtxt.splitlines() if l.strip() and not l.strip().startswith("//")]
    if lines != EXPECTED_CRYPTO_MOD:
        problems.append("src/crypto/mod.rs differs from the mirrored module tree in harness/src/main.rs: %r" % lines)
    # 2. extracted items
    main = open(os.path.join(repo, "src/main.rs")).read()
    item = extract_item(main, r"^fn parse_ip_netmask\s*\(")
    out = "// GENERATED from %s/src/main.rs - do not edit\n" % repo
    if item is None:
        problems.append("fn parse_ip_netmask not found in src/main.rs")
        out += "fn parse_ip_netmask(_addr: &str) -> Result<(Ipv4Addr, Ipv4Addr), String> { unimplemented!() }\n"
    else:
        out += item + "\n"
    write_if_changed(os.path.join(K.GEN, "extracted.rs"), out)
    # 3. playback dispatch
    hs = all_harnesses()
    d = "// GENERATED - playback dispatch\npub fn dispatch(name: &str) -> bool {\n    match name {\n"
    for n in sorted(hs):
        d += '        "%s" => %s::%s(),\n' % (n, hs[n], n)
    d += "        _ => return false,\n    }\n    true\n}\n"
    write_if_changed(os.path.join(K.GEN, "dispatch.rs"), d)
    return (not problems), problems


def source_hashes(files):
    res = {}
    for f in files:
        p = os.path.join(K.REPO, f)
        try:
            res[f] = hashlib.sha256(open(p, "rb").read()).hexdigest()[:16]
        except OSError:
            res[f] = "missing"
    return res

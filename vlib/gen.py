"""Generated inputs of the harness crate: items extracted textually from /repo (main.rs cannot be a module) and
the playback dispatch table. Regenerated from /repo's working tree on every run; written only when changed."""
import hashlib
import os
import re

from . import kani_run as K

HMODS = {
    "util_h.rs": "crate::util::verif",
    "types_h.rs": "crate::types::verif",
    "payload_h.rs": "crate::payload::verif",
    "table_h.rs": "crate::table::verif",
    "messages_h.rs": "crate::messages::verif",
    "common_crypto_h.rs": "crate::crypto::common::verif",
    "core_h.rs": "crate::crypto::core::verif",
    "init_h.rs": "crate::crypto::init::verif",
    "rotate_h.rs": "crate::crypto::rotate::verif",
    "beacon_h.rs": "crate::beacon::verif",
    "extracted_h.rs": "crate::extracted",
}

EXPECTED_CRYPTO_MOD = ["mod common;", "mod core;", "mod init;", "mod rotate;",
                       "pub use self::core::{EXTRA_LEN, TAG_LEN};", "pub use common::*;"]


def harness_names(hfile):
    src = open(hfile).read()
    names = re.findall(r"pub fn (c\d\d_\w+)\(\)", src)
    for m in re.finditer(r"\b\w+_inst!\s*\((.*?)\)\s*;", src, re.S):
        names += re.findall(r"\b(c\d\d_\w+)\b", m.group(1))
    seen, out = set(), []
    for n in names:
        if n not in seen:
            seen.add(n)
            out.append(n)
    return out


def all_harnesses():
    res = {}
    for h, mod in HMODS.items():
        p = os.path.join(K.HARNESS, "h", h)
        if os.path.exists(p):
            for n in harness_names(p):
                res[n] = mod
    return res


def extract_item(src, start_regex):
    """Brace-matched item starting at the first match of start_regex (comments/strings without braces assumed)."""
    m = re.search(start_regex, src, re.M)
    if not m:
        return None
    i = src.index("{", m.end() - 1) if src[m.end() - 1] != "{" else m.end() - 1
    depth, j = 0, i
    in_str = False
    while j < len(src):
        c = src[j]
        if in_str:
            if c == "\\":
                j += 1
            elif c == '"':
                in_str = False
        else:
            if c == '"':
                in_str = True
            elif c == "/" and src[j:j + 2] == "//":
                j = src.index("\n", j)
                continue
            elif c == "'" and re.match(r"'(\\.|[^\\'])'", src[j:j + 4]):
                j += len(re.match(r"'(\\.|[^\\'])'", src[j:j + 4]).group(0))
                continue
            elif c == "{":
                depth += 1
            elif c == "}":
                depth -= 1
                if depth == 0:
                    return src[m.start():j + 1]
        j += 1
    return None


def write_if_changed(path, text):
    os.makedirs(os.path.dirname(path), exist_ok=True)
    if os.path.exists(path) and open(path).read() == text:
        return False
    tmp = path + ".tmp%d" % os.getpid()
    with open(tmp, "w") as f:
        f.write(text)
    os.replace(tmp, path)
    return True


def generate():
    """-> (ok, problems[])"""
    problems = []
    repo = K.REPO
    # 1. crypto/mod.rs mirror check
    modtxt = open(os.path.join(repo, "src/crypto/mod.rs")).read()
    lines = [l.strip() for l in modtxt.splitlines() if l.strip() and not l.strip().startswith("//")]
    if lines != EXPECTED_CRYPTO_MOD:
        problems.append("src/crypto/mod.rs differs from the mirrored module tree in harness/src/main.rs: %r" % lines)
    # 2. extracted items / statement slices (textual, brace matched; wrapped so that the same tokens compile)
    def rd(f):
        return open(os.path.join(repo, f)).read()
    main, config, cloud = rd("src/main.rs"), rd("src/config.rs"), rd("src/cloud.rs")
    out = "// GENERATED from %s/src/{main,config,cloud}.rs on every run - do not edit\n" % repo
    out += "use std::cmp::{max, min};\nuse crate::util::{Duration, Time};\nuse crate::types::Mode;\n"

    def need(item, what, fallback):
        if item is None:
            problems.append("%s not found (extraction pattern no longer matches the source)" % what)
            return fallback
        return item

    out += need(extract_item(main, r"^fn parse_ip_netmask\s*\("), "fn parse_ip_netmask in src/main.rs",
                "fn parse_ip_netmask(_addr: &str) -> Result<(Ipv4Addr, Ipv4Addr), String> { unimplemented!() }") + "\n\n"
    # constants
    for name, src, f in (("DEFAULT_PEER_TIMEOUT", config, "config.rs"), ("MAX_RECONNECT_INTERVAL", cloud, "cloud.rs")):
        m = re.search(r"^(?:pub )?const %s: \w+ = [^;]+;" % name, src, re.M)
        out += need(m.group(0) if m else None, "const %s in src/%s" % (name, f), "const %s: u16 = 0;" % name) + "\n"
    # Config::get_keepalive with the two fields it reads
    gk = extract_item(config, r"^    pub fn get_keepalive\s*\(")
    out += "\npub struct XConfig {\n    pub keepalive: Option<Duration>,\n    pub peer_timeout: Duration,\n}\nimpl XConfig {\n"
    out += need(gk, "Config::get_keepalive in src/config.rs", "    pub fn get_keepalive(&self) -> Duration { unimplemented!() }") + "\n}\n"
    # GenericCloud::new: how update_freq is derived from the keepalive
    m = re.search(r"let update_freq = config\.get_keepalive\(\) as (\w+);", cloud)
    cast = need(m.group(1) if m else None, "update_freq derivation in GenericCloud::new", "u16")
    m2 = re.search(r"^\s*update_freq: (\w+),", cloud, re.M)
    out += "pub type UpdateFreq = %s;\npub fn update_freq_of(config: &XConfig) -> UpdateFreq {\n    let update_freq = config.get_keepalive() as %s;\n    update_freq\n}\n" % (m2.group(1) if m2 else "u16", cast)
    # housekeep: the announcement-interval slice
    m = re.search(r"^( *)let min_peer_timeout\s*=.*?self\.next_peers\s*=\s*now \+ [^;]*;", cloud, re.M | re.S)
    sl = need(m.group(0) if m else None, "announcement interval slice in GenericCloud::housekeep", "let interval = 0u16; self.next_peers = now;")
    # numeric fields of PeerData, with the types the source declares
    pd = extract_item(cloud, r"^(?:pub )?struct PeerData\s*")
    fields = []
    for fname in ("last_seen", "timeout", "peer_timeout"):
        fm = re.search(r"\b%s: (\w+)," % fname, pd or "")
        if not fm:
            problems.append("field %s of PeerData not found in src/cloud.rs" % fname)
        fields.append("    pub %s: %s," % (fname, fm.group(1) if fm else "u16"))
    out += ("\npub struct XPeer {\n" + "\n".join(fields) + "\n}\npub struct XCloud {\n    pub peers: crate::vstd::collections::HashMap<u8, XPeer>,\n"
            "    pub update_freq: UpdateFreq,\n    pub next_peers: Time,\n}\nimpl XCloud {\n    pub fn announce_interval_slice(&mut self, now: Time) {\n"
            + sl + "\n    }\n}\n")
    # housekeep: which peers are expired; update_peer_info / add_new_peer: how the expiry is refreshed
    m = re.search(r"^( *)for \(&addr, data\) in &self\.peers \{.*?\n\1\}", cloud, re.M | re.S)
    sl = need(m.group(0) if m else None, "peer expiry loop in GenericCloud::housekeep", "")
    out += ("\nimpl XCloud {\n    pub fn expired_peers_slice(&self, now: Time) -> smallvec::ivec::IVec<u8, 8> {\n"
            "        let mut del: smallvec::ivec::IVec<u8, 8> = smallvec::ivec::IVec::new();\n" + sl + "\n        del\n    }\n}\n")
    refresh = re.findall(r"^\s*timeout: TS::now\(\) \+ self\.config\.peer_timeout as Time,", cloud, re.M)
    if len(refresh) != 1:
        problems.append("expected the initial peer expiry `timeout: TS::now() + self.config.peer_timeout as Time,` exactly once (add_new_peer), found %d" % len(refresh))
    # the refresh: every statement of update_peer_info between `if let Some(peer) = self.peers.get_mut(&addr) {` and the address update
    upi = extract_item(cloud, r"^    fn update_peer_info\s*\(") or ""
    m = re.search(r"if let Some\(peer\) = self\.peers\.get_mut\(&addr\) \{\n(.*?)\n\s*if let Some\(info\) = &info \{", upi, re.S)
    sl = m.group(1) if m and "peer.timeout" in m.group(1) else None
    sl = need(sl, "expiry refresh in GenericCloud::update_peer_info", "peer.timeout = 0;")
    out += ("pub struct XNodeCfg {\n    pub peer_timeout: Duration,\n}\npub struct XRefresher {\n    pub config: XNodeCfg,\n}\n"
            "impl XRefresher {\n    pub fn refresh_slice<TS: crate::util::TimeSource>(&self, peer: &mut XPeer) {\n" + sl + "\n    }\n}\n")
    # reconnect_to_peers: the back-off step
    m = re.search(r"^( *)entry\.tries \+= 1;.*?entry\.next\s*=\s*now \+ [^;]*;", cloud, re.M | re.S)
    sl = need(m.group(0) if m else None, "back-off slice in GenericCloud::reconnect_to_peers", "entry.next = now;")
    out += ("\npub struct XEntry {\n    pub tries: u16,\n    pub timeout: u16,\n    pub next: Time,\n}\n"
            "pub fn backoff_step_slice(entry: &mut XEntry, now: Time) {\n" + sl + "\n}\n")
    # add_reconnect_peer: initial values
    m = re.search(r"tries: (\d+),\s*timeout: (\d+),", cloud)
    out += "pub const RECONNECT_INIT: (u16, u16) = (%s, %s);\n" % ((m.group(1), m.group(2)) if m else ("0", "0"))
    if not m:
        problems.append("initial reconnect entry values not found in add_reconnect_peer")
    # GenericCloud::new: learning / broadcast flags per (mode, device type)
    m = re.search(r"let \(learning, broadcast\) = match config\.mode \{", cloud)
    sl = None
    if m:
        blk = extract_item(cloud[m.start():], r"let \(learning, broadcast\) = match config\.mode ")
        sl = blk + ";" if blk else None
    sl = need(sl, "learning/broadcast flag table in GenericCloud::new", "let (learning, broadcast) = (false, false);")
    out += ("\n#[derive(Clone, Copy, PartialEq)]\npub enum Type {\n    Tun,\n    Tap,\n}\npub struct XModeCfg {\n    pub mode: Mode,\n    pub device_type: Type,\n}\n"
            "pub fn mode_flags_slice(config: &XModeCfg) -> (bool, bool) {\n        " + sl + "\n    (learning, broadcast)\n}\n")
    # connect_to_peers: the whole function (what a node does with a received peer list), over a projection of the node
    ctp = need(extract_item(cloud, r"^    fn connect_to_peers\s*\("), "GenericCloud::connect_to_peers in src/cloud.rs",
               "    fn connect_to_peers(&mut self, _peers: &[PeerInfo]) -> Result<(), Error> { unimplemented!() }")
    if not re.search(r"^\s*own_addresses: AddrList,", cloud, re.M):
        problems.append("GenericCloud.own_addresses is no longer an AddrList")
    if not re.search(r"\bnode_id: NodeId,", extract_item(cloud, r"^(?:pub )?struct PeerData\s*") or ""):
        problems.append("PeerData.node_id: NodeId not found in src/cloud.rs")
    msgs = rd("src/messages.rs")
    if not re.search(r"^pub type AddrList = SmallVec<\[SocketAddr; 4\]>;", msgs, re.M):
        problems.append("messages.rs: AddrList is no longer SmallVec<[SocketAddr; 4]>")
    if not re.search(r"pub struct PeerInfo \{\s*pub node_id: Option<NodeId>,\s*pub addrs: AddrList,\s*\}", msgs):
        problems.append("messages.rs: PeerInfo is no longer { node_id: Option<NodeId>, addrs: AddrList }")
    # address and identity types are abstracted to u16 newtypes (a bare u16 would select std's chunked slice::contains; [u8; 16] forces unwind 17): the function uses addresses only through ==, contains, contains_key and copy
    out += ("\n#[allow(unused_imports)]\nuse smallvec::{smallvec, SmallVec};\n#[derive(Clone, Copy, PartialEq, Eq, Hash, Debug)]\npub struct SocketAddr(pub u16);\nuse crate::error::Error;\n"
            "pub type AddrList = SmallVec<[SocketAddr; 4]>;\npub struct PeerInfo {\n    pub node_id: Option<NodeId>,\n    pub addrs: AddrList,\n}\n#[derive(Clone, Copy, PartialEq, Eq, Hash, Debug)]\npub struct NodeId(pub u16);\n"
            "pub struct XPeerId {\n    pub node_id: NodeId,\n}\n"
            "pub struct XMesh {\n    pub node_id: NodeId,\n    pub peers: crate::vstd::collections::HashMap<SocketAddr, XPeerId>,\n"
            "    pub own_addresses: AddrList,\n    pub dialled: smallvec::ivec::IVec<SocketAddr, 4>,\n}\nimpl XMesh {\n"
            "    /// recorder standing in for GenericCloud::connect (which starts a handshake and changes neither peers nor own_addresses)\n"
            "    fn connect(&mut self, addrs: &[SocketAddr]) -> Result<(), Error> {\n        if !addrs.is_empty() {\n            self.dialled.push(addrs[0]);\n        }\n        Ok(())\n    }\n"
            + ctp + "\n}\n")
    # handle_interface_data: the routing decision (match on the table's answer), over a projection of the node
    hid = extract_item(cloud, r"^    pub fn handle_interface_data\s*\(")
    rt = None
    if hid:
        mm = re.search(r"match self\.table\.lookup\(dst\) \{", hid)
        rt = extract_item(hid[mm.start():], r"match self\.table\.lookup\(dst\) ") if mm else None
    rt = need(rt, "routing decision `match self.table.lookup(dst)` in GenericCloud::handle_interface_data", "{ let _ = (dst, data); }")
    if not re.search(r"pub const MESSAGE_TYPE_DATA: u8 = 0;", msgs):
        problems.append("messages.rs: MESSAGE_TYPE_DATA is no longer `u8 = 0`")
    out += ("\npub use crate::messages::MESSAGE_TYPE_DATA;\nimpl std::fmt::Display for SocketAddr {\n    fn fmt(&self, _f: &mut std::fmt::Formatter<'_>) -> std::fmt::Result {\n        Ok(())\n    }\n}\npub fn addr_nice(addr: SocketAddr) -> SocketAddr {\n    addr\n}\n"
            "pub struct XData {\n    pub n: usize,\n}\nimpl XData {\n    pub fn len(&self) -> usize {\n        self.n\n    }\n}\n"
            "pub struct XLookup {\n    pub answer: Option<SocketAddr>,\n    pub asked: u8,\n    pub removed: smallvec::ivec::IVec<SocketAddr, 2>,\n}\n"
            "impl XLookup {\n    /// stands in for ClaimTable::lookup (decided under C11 on the real table): answers what the harness prepared\n"
            "    pub fn lookup(&mut self, _dst: crate::types::Address) -> Option<SocketAddr> {\n        self.asked += 1;\n        self.answer\n    }\n"
            "    pub fn remove_claims(&mut self, addr: SocketAddr) {\n        self.removed.push(addr);\n    }\n}\n"
            "pub struct XTraffic {\n    pub dropped_calls: u8,\n    pub dropped_bytes: usize,\n}\n"
            "impl XTraffic {\n    pub fn count_dropped_payload(&mut self, bytes: usize) {\n        self.dropped_calls += 1;\n        self.dropped_bytes = bytes;\n    }\n}\n"
            "pub struct XRouter {\n    pub table: XLookup,\n    pub peers: crate::vstd::collections::HashMap<SocketAddr, XPeerId>,\n    pub broadcast: bool,\n"
            "    pub traffic: XTraffic,\n    pub sent: smallvec::ivec::IVec<(SocketAddr, u8), 2>,\n    pub broadcasts: smallvec::ivec::IVec<u8, 2>,\n"
            "    pub connects: smallvec::ivec::IVec<SocketAddr, 2>,\n}\nimpl XRouter {\n"
            "    /// recorders standing in for send_msg / broadcast_msg / connect_sock (socket I/O and handshake start)\n"
            "    fn send_msg(&mut self, addr: SocketAddr, type_: u8, _data: &mut XData) -> Result<(), Error> {\n        self.sent.push((addr, type_));\n        Ok(())\n    }\n"
            "    fn broadcast_msg(&mut self, type_: u8, _data: &mut XData) -> Result<(), Error> {\n        self.broadcasts.push(type_);\n        Ok(())\n    }\n"
            "    fn connect_sock(&mut self, addr: SocketAddr) -> Result<(), Error> {\n        self.connects.push(addr);\n        Ok(())\n    }\n"
            "    pub fn route_slice(&mut self, dst: crate::types::Address, data: &mut XData) -> Result<(), Error> {\n        "
            + rt + "\n        Ok(())\n    }\n}\n")
    # housekeep: what happens to the peers found expired (removal loop behind the expiry loop)
    hk = extract_item(cloud, r"^    (?:pub )?fn housekeep\s*\(") or ""
    mm = re.search(r"for addr in del \{\s*info!\(\"Forgot peer", hk)
    fg = extract_item(hk[mm.start():], r"for addr in del ") if mm else None
    fg = need(fg, "removal loop `for addr in del` (Forgot peer) in GenericCloud::housekeep", "{ let _ = del; }")
    out += ("pub struct XReaper {\n    pub peers: crate::vstd::collections::HashMap<SocketAddr, XPeerId>,\n    pub table: XLookup,\n"
            "    pub connects: smallvec::ivec::IVec<SocketAddr, 2>,\n}\nimpl XReaper {\n"
            "    fn connect_sock(&mut self, addr: SocketAddr) -> Result<(), Error> {\n        self.connects.push(addr);\n        Ok(())\n    }\n"
            "    pub fn forget_slice(&mut self, del: smallvec::ivec::IVec<SocketAddr, 2>) -> Result<(), Error> {\n        "
            + fg + "\n        Ok(())\n    }\n}\n")
    write_if_changed(os.path.join(K.GEN, "extracted.rs"), out)
    # 2b. the cipher-list part of a handshake message: writer arm of InitMsg::write_to and reader arm of InitMsg::read_from,
    #     wrapped as associated functions of InitMsg (included into crypto::init::verif, so Self:: and private items resolve)
    init = rd("src/crypto/init.rs")
    wpos = init.find("fn write_to(&self, buffer: &mut [u8]")
    warm = extract_item(init[wpos:], r"Self::Ping \{ algorithms, \.\. \} \| Self::Pong \{ algorithms, \.\. \} => \{") if wpos >= 0 else None
    rarm = extract_item(init, r"Self::PART_ALGORITHMS => \{")
    if not re.search(r"fn write_to\(&self, buffer: &mut \[u8\], key: &Ed25519KeyPair\) -> Result<usize, io::Error> \{\s*let mut w = Cursor::new\(buffer\);", init):
        problems.append("InitMsg::write_to no longer writes through `let mut w = Cursor::new(buffer)`")
    if not re.search(r"fn read_from\(buffer: &\[u8\], trusted_keys: &\[Ed25519PublicKey\]\) -> Result<\(Self, Ed25519PublicKey\), Error> \{\s*let mut r = Cursor::new\(buffer\);", init):
        problems.append("InitMsg::read_from no longer reads through `let mut r = Cursor::new(buffer)`")
    if not re.search(r"let field_len = r\.read_u16::<NetworkEndian>\(\)[^;]*as usize;", init) or not re.search(r"let mut algorithms = None;", init):
        problems.append("InitMsg::read_from: field_len / algorithms bindings not found")
    warm = need(warm, "cipher-list writer arm in InitMsg::write_to", "{ let _ = algorithms; }")
    rarm = need(rarm, "cipher-list reader arm in InitMsg::read_from", "{ let _ = field_len; }")
    warm = warm[warm.index("=> {") + 3:] if "=> {" in warm else warm
    rarm = rarm[rarm.index("=> {") + 3:] if "=> {" in rarm else rarm
    xi = ("// GENERATED from %s/src/crypto/init.rs on every run - do not edit\n" % repo +
          "impl InitMsg {\n    pub fn x_write_algorithms_part(algorithms: &Algorithms, buffer: &mut [u8]) -> Result<usize, io::Error> {\n"
          "        let mut w = Cursor::new(buffer);\n        " + warm + "\n        Ok(w.position() as usize)\n    }\n"
          "    #[allow(unused_assignments, unused_mut)]\n    pub fn x_read_algorithms_part(buffer: &[u8], field_len: usize) -> Result<Option<Algorithms>, Error> {\n"
          "        let mut r = Cursor::new(buffer);\n        let mut algorithms = None;\n        " + rarm + "\n        Ok(algorithms)\n    }\n}\n")
    # the signature read of InitMsg::read_from: from `let pos = ...` up to (not including) `let signed_data = ...`
    m = re.search(r"^( *)let pos = r\.position\(\) as usize;.*?(?=^\s*let signed_data\b)", init, re.M | re.S)
    sig = need(m.group(0) if m else None, "signature read slice in InitMsg::read_from", "let pos = 0; let signature = [0u8; 0];")
    if not re.search(r"\bsignature\b", sig):
        problems.append("signature read slice no longer binds `signature`")
    xi += ("impl InitMsg {\n    /// -> (signed length, signature length)\n    #[allow(unused_mut)]\n"
           "    pub fn x_read_signature_part(buffer: &[u8], start: usize) -> Result<(usize, usize), Error> {\n"
           "        let mut r = Cursor::new(buffer);\n        r.set_position(start as u64);\n" + sig +
           "\n        let n = signature.len();\n        Ok((pos, n))\n    }\n}\n")
    write_if_changed(os.path.join(K.GEN, "extracted_init.rs"), xi)
    # 2c. NodeInfo::encode_peer_list_part: the per-family limit and the flags byte of one peer-list entry (the statements between the
    #     address-sorting loop and the write of the flags byte)
    msgs = rd("src/messages.rs")
    fn_txt = extract_item(msgs, r"^    fn encode_peer_list_part<W: Write>\(&self, mut out: W\)")
    sl = None
    if fn_txt:
        loop = extract_item(fn_txt, r"for a in &p\.addrs \{")
        endpos = fn_txt.find("out.write_u8(flags)")
        if loop and endpos > 0:
            startpos = fn_txt.index(loop) + len(loop)
            if startpos < endpos:
                sl = fn_txt[startpos:endpos]
    sl = need(sl, "limit-and-flags slice in NodeInfo::encode_peer_list_part", "let flags = 0u8;")
    for v in ("addr_ipv4", "addr_ipv6", "flags"):
        if not re.search(r"\b%s\b" % v, sl):
            problems.append("limit-and-flags slice no longer mentions `%s`" % v)
    xm = ("// GENERATED from %s/src/messages.rs on every run - do not edit\n" % repo +
          "pub struct XPeerEntry {\n    pub node_id: Option<u8>,\n}\n#[allow(unused_mut)]\n"
          "pub fn x_peer_entry_flags(p: &XPeerEntry, mut addr_ipv4: SmallVec<[u8; 16]>, mut addr_ipv6: SmallVec<[u8; 16]>) -> (u8, usize, usize) {\n"
          + sl + "\n    (flags, addr_ipv4.len(), addr_ipv6.len())\n}\n")
    # ... and the same statements of NodeInfo::encode_addrs_part (the node's own address list)
    fn_txt = extract_item(msgs, r"^    fn encode_addrs_part<W: Write>\(&self, mut out: W\)")
    sl = None
    if fn_txt:
        loop = extract_item(fn_txt, r"for a in &self\.addrs \{")
        endpos = fn_txt.find("out.write_u8(flags)")
        if loop and endpos > 0:
            startpos = fn_txt.index(loop) + len(loop)
            if startpos < endpos:
                sl = fn_txt[startpos:endpos]
    sl = need(sl, "limit-and-flags slice in NodeInfo::encode_addrs_part", "let flags = 0u8;")
    for v in ("addr_ipv4", "addr_ipv6", "flags"):
        if not re.search(r"\b%s\b" % v, sl):
            problems.append("limit-and-flags slice of encode_addrs_part no longer mentions `%s`" % v)
    xm += ("#[allow(unused_mut)]\npub fn x_own_addrs_flags(mut addr_ipv4: SmallVec<[u8; 16]>, mut addr_ipv6: SmallVec<[u8; 16]>) -> (u8, usize, usize) {\n"
           + sl + "\n    (flags, addr_ipv4.len(), addr_ipv6.len())\n}\n")
    write_if_changed(os.path.join(K.GEN, "extracted_messages.rs"), xm)
    # 3. playback dispatch
    hs = all_harnesses()
    d = "// GENERATED - playback dispatch\npub fn dispatch(name: &str) -> bool {\n    match name {\n"
    for n in sorted(hs):
        d += '        "%s" => %s::%s(),\n' % (n, hs[n], n)
    d += "        _ => return false,\n    }\n    true\n}\n"
    write_if_changed(os.path.join(K.GEN, "dispatch.rs"), d)
    return (not problems), problems


def source_hashes(files):
    res = {}
    for f in files:
        p = os.path.join(K.REPO, f)
        try:
            res[f] = hashlib.sha256(open(p, "rb").read()).hexdigest()[:16]
        except OSError:
            res[f] = "missing"
    return res

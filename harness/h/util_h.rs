// harnesses over /repo/src/util.rs  (C18 text codec, C08 MsgBuffer window)

/// the inductive step of to_base62: multiply the little-endian base-62 digit string (<= 6 digits here) by 16 and
/// add m < 16: the new digit string denotes 16*old + m, every digit stays < 62 (so the function's own
/// `assert!(d < 62)` cannot fire), the length grows by at most one and the form stays canonical
#[cfg_attr(kani, kani::proof, kani::unwind(9))]
pub fn c18_add_mult_16_step() {
    let digits: [u8; 6] = kani::any();
    let len: usize = kani::any();
    let m: u8 = kani::any();
    kani::assume(len <= 6 && m < 16);
    let mut buf = [0u8; 8];
    let mut val: u64 = 0;
    let mut pw: u64 = 1;
    let mut i = 0;
    while i < 6 {
        if i < len {
            kani::assume(digits[i] < 62);
            buf[i] = digits[i];
            val += digits[i] as u64 * pw;
            pw *= 62;
        }
        i += 1;
    }
    if len > 0 {
        kani::assume(digits[len - 1] != 0);
    }
    let newlen = base62_add_mult_16(&mut buf, len, m);
    assert!(newlen >= len && newlen <= len + 1);
    let mut val2: u64 = 0;
    let mut pw: u64 = 1;
    let mut i = 0;
    while i < 7 {
        if i < newlen {
            assert!(buf[i] < 62);
            val2 += buf[i] as u64 * pw;
            pw *= 62;
        }
        i += 1;
    }
    assert!(val2 == val * 16 + m as u64);
    if newlen > 0 {
        assert!(buf[newlen - 1] != 0 || val2 == 0);
    }
    witness!();
}


//! Kani harness crate. The module tree of vpncloud is rebuilt around the UNMODIFIED source files of the
//! repository (path in env VERIF_REPO at compile time, normally /repo); each module gets a child `verif`
//! module (cfg(kani) for the solver, cfg(vh_playback) for native replay of a counterexample) that sees the
//! parent's private items. Nothing in /repo is edited or hooked.
#![allow(dead_code, unused_imports, unused_macros, unused_variables, unused_mut, unused_unsafe, clippy::all)]
#![allow(static_mut_refs, non_snake_case)]

#[macro_use]
extern crate log;
#[macro_use]
extern crate serde;

pub mod vstd;

/// native stand-in for the `kani` crate: values come from a solver counterexample (see models/vhrt)
#[cfg(vh_playback)]
pub mod kani {
    pub use vhrt::{any, assume, Arbitrary};
    pub fn any_where<T: Arbitrary, F: FnOnce(&T) -> bool>(f: F) -> T {
        let v = any();
        assume(f(&v));
        v
    }
}

#[cfg(any(kani, vh_playback))]
#[macro_use]
pub mod vh_common {
    #[cfg(vh_playback)]
    use crate::kani;
    include!("../h/common_h.rs");
}

#[macro_use]
pub mod util {
    include!(concat!(env!("VERIF_REPO"), "/src/util.rs"));
    #[cfg(any(kani, vh_playback))]
    pub mod verif {
        use super::*;
        #[cfg(vh_playback)]
        use crate::kani;
        include!("../h/util_h.rs");
    }
}
pub mod error {
    include!(concat!(env!("VERIF_REPO"), "/src/error.rs"));
}
pub mod types {
    include!(concat!(env!("VERIF_REPO"), "/src/types.rs"));
    #[cfg(any(kani, vh_playback))]
    pub mod verif {
        use super::*;
        #[cfg(vh_playback)]
        use crate::kani;
        include!("../h/types_h.rs");
    }
}
pub mod payload {
    include!(concat!(env!("VERIF_REPO"), "/src/payload.rs"));
    #[cfg(any(kani, vh_playback))]
    pub mod verif {
        use super::*;
        #[cfg(vh_playback)]
        use crate::kani;
        include!("../h/payload_h.rs");
    }
}
pub mod table {
    use crate::vstd as std;
    // prelude `Vec` and `vec![]` are shadowed by the inline-storage model (see models/smallvec: heap vectors with a
    // symbolic length exhaust CBMC's memory in set_claims)
    use crate::vstd::vecmodel::Vec;
    macro_rules! vec {
        () => {
            crate::vstd::vecmodel::Vec::new()
        };
    }
    include!(concat!(env!("VERIF_REPO"), "/src/table.rs"));
    #[cfg(any(kani, vh_playback))]
    pub mod verif {
        use super::*;
        #[cfg(vh_playback)]
        use crate::kani;
        include!("../h/table_h.rs");
    }
}
pub mod messages {
    include!(concat!(env!("VERIF_REPO"), "/src/messages.rs"));
    #[cfg(any(kani, vh_playback))]
    pub mod verif {
        use super::*;
        #[cfg(vh_playback)]
        use crate::kani;
        include!("../h/messages_h.rs");
    }
}
pub mod crypto {
    // mirrors /repo/src/crypto/mod.rs (the driver compares that file's text with the expected one on every run)
    pub(crate) mod common {
        include!(concat!(env!("VERIF_REPO"), "/src/crypto/common.rs"));
        #[cfg(any(kani, vh_playback))]
        pub mod verif {
            use super::*;
            #[cfg(vh_playback)]
            use crate::kani;
            include!("../h/common_crypto_h.rs");
        }
    }
    pub(crate) mod core {
        include!(concat!(env!("VERIF_REPO"), "/src/crypto/core.rs"));
        #[cfg(any(kani, vh_playback))]
        pub mod verif {
            use super::*;
            #[cfg(vh_playback)]
            use crate::kani;
            include!("../h/core_h.rs");
        }
    }
    pub(crate) mod init {
        include!(concat!(env!("VERIF_REPO"), "/src/crypto/init.rs"));
        #[cfg(any(kani, vh_playback))]
        pub mod verif {
            use super::*;
            #[cfg(vh_playback)]
            use crate::kani;
            include!("../h/init_h.rs");
        }
    }
    pub(crate) mod rotate {
        include!(concat!(env!("VERIF_REPO"), "/src/crypto/rotate.rs"));
        #[cfg(any(kani, vh_playback))]
        pub mod verif {
            use super::*;
            #[cfg(vh_playback)]
            use crate::kani;
            include!("../h/rotate_h.rs");
        }
    }
    pub use self::core::{EXTRA_LEN, TAG_LEN};
    pub use common::*;
}
pub mod beacon {
    include!(concat!(env!("VERIF_REPO"), "/src/beacon.rs"));
    #[cfg(any(kani, vh_playback))]
    pub mod verif {
        use super::*;
        #[cfg(vh_playback)]
        use crate::kani;
        include!("../h/beacon_h.rs");
    }
}

/// items extracted textually (brace matched) from /repo/src/main.rs and /repo/src/config.rs, /repo/src/cloud.rs
/// by the driver before every build: main.rs is the crate root of vpncloud and cannot be included as a module
#[cfg(any(kani, vh_playback))]
pub mod extracted {
    #[cfg(vh_playback)]
    use crate::kani;
    use std::{net::Ipv4Addr, str::FromStr};
    include!(concat!(env!("VH_GEN"), "/extracted.rs"));
    include!("../h/extracted_h.rs");
}

#[cfg(vh_playback)]
mod playback {
    include!(concat!(env!("VH_GEN"), "/dispatch.rs"));
    pub fn main() {
        let args: Vec<String> = std::env::args().collect();
        if args.len() != 3 {
            eprintln!("usage: vh <harness> <values-file>");
            std::process::exit(2);
        }
        let text = std::fs::read_to_string(&args[2]).expect("values file");
        let mut vals: Vec<Vec<u8>> = Vec::new();
        for line in text.lines() {
            let line = line.trim();
            if line.is_empty() || line.starts_with('#') {
                continue;
            }
            vals.push(line.split(',').filter(|s| !s.trim().is_empty()).map(|s| s.trim().parse::<u8>().expect("byte")).collect());
        }
        vhrt::load(vals);
        if !dispatch(&args[1]) {
            eprintln!("unknown harness {}", args[1]);
            std::process::exit(2);
        }
        println!("VH-PLAYBACK-RETURNED consumed={} of={} underrun={}", vhrt::consumed(), vhrt::total(), vhrt::underrun());
    }
}

fn main() {
    #[cfg(vh_playback)]
    playback::main();
}

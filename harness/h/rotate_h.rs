// harnesses over /repo/src/crypto/rotate.rs  (C16 rotation message codec)

fn okio<T>(r: Result<T, io::Error>) -> Option<T> {
    match r {
        Ok(v) => Some(v),
        Err(e) => {
            std::mem::forget(e);
            None
        }
    }
}

fn key_of(bytes: &[u8; 32], n: usize) -> EcdhPublicKey {
    let mut v: SmallVec<[u8; 96]> = SmallVec::new();
    let mut i = 0;
    while i < n {
        v.push(bytes[i]);
        i += 1;
    }
    EcdhPublicKey::new(&X25519, v)
}

fn same_key(k: &EcdhPublicKey, bytes: &[u8; 32], n: usize) -> bool {
    let b = k.bytes();
    if b.len() != n {
        return false;
    }
    let mut i = 0;
    while i < n {
        if b[i] != bytes[i] {
            return false;
        }
        i += 1;
    }
    true
}

/// C16-H2a: RotationMessage::write_to -> read_from is the identity (message id, proposed key, optional confirmed key)
fn rotation_roundtrip(np: usize, nc: usize) {
    let id: u64 = kani::any();
    let p: [u8; 32] = kani::any();
    let c: [u8; 32] = kani::any();
    let msg = RotationMessage { message_id: id, propose: key_of(&p, np), confirm: if nc > 0 { Some(key_of(&c, nc)) } else { None } };
    let mut wire = [0u8; 96];
    let len = {
        let mut w = Cursor::new(&mut wire[..]);
        assert!(okio(msg.write_to(&mut w)).is_some());
        w.position() as usize
    };
    assert!(len == 8 + 1 + np + 1 + nc);
    let back = okio(RotationMessage::read_from(Cursor::new(&wire[..len])));
    assert!(back.is_some());
    let back = back.unwrap();
    assert!(back.message_id == id);
    assert!(same_key(&back.propose, &p, np));
    match &back.confirm {
        None => assert!(nc == 0),
        Some(k) => assert!(nc > 0 && same_key(k, &c, nc)),
    }
    std::mem::forget(back);
    std::mem::forget(msg);
    witness!();
}
macro_rules! rot_inst {
    ($($name:ident = ($a:expr, $b:expr)),*) => {$(
        #[cfg_attr(kani, kani::proof, kani::unwind(36))]
        pub fn $name() {
            rotation_roundtrip($a, $b)
        }
    )*};
}
rot_inst!(c16_rotation_rt_p32_c0 = (32, 0), c16_rotation_rt_p32_c32 = (32, 32), c16_rotation_rt_p0_c0 = (0, 0), c16_rotation_rt_p1_c31 = (1, 31));

/// C16-H2b: RotationMessage::read_from on `total` arbitrary bytes: never a fault; accepted iff the two length fields
/// fit; the decoded value reflects exactly those bytes
fn rotation_decode_total(total: usize) {
    let bytes: [u8; 24] = kani::any();
    let res = okio(RotationMessage::read_from(Cursor::new(&bytes[..total])));
    let ok = total >= 10 && {
        let l1 = bytes[8] as usize;
        total >= 10 + l1 && {
            let l2 = bytes[9 + l1] as usize;
            total >= 10 + l1 + l2
        }
    };
    assert!(res.is_some() == ok);
    if let Some(m) = res {
        let mut idb = [0u8; 8];
        idb.copy_from_slice(&bytes[..8]);
        assert!(m.message_id == u64::from_be_bytes(idb));
        assert!(m.propose.bytes().len() == bytes[8] as usize);
        std::mem::forget(m);
    }
    witness!();
}
macro_rules! rotd_inst {
    ($($name:ident = $n:expr),*) => {$(
        #[cfg_attr(kani, kani::proof, kani::unwind(258))]
        pub fn $name() {
            rotation_decode_total($n)
        }
    )*};
}
rotd_inst!(c16_rotation_decode_total00 = 0, c16_rotation_decode_total08 = 8, c16_rotation_decode_total09 = 9, c16_rotation_decode_total10 = 10,
           c16_rotation_decode_total12 = 12, c16_rotation_decode_total24 = 24);

/// rotation state of a side whose proposal was not confirmed yet and is due for re-sending on the next cycle
pub fn resending_state() -> RotationState {
    let (private_key, _public_key) = RotationState::create_key();
    RotationState { confirmed: None, pending: None, proposed: Some(private_key), message_id: 1, timeout: true }
}

// ===================================================================================================== C07 kernels
/// takes the rotation message out of `buf`. The wire layout (id, length byte 32, key[, length byte 32, key] / 0) is
/// asserted and the value rebuilt with concrete lengths: length bytes read back from the 64 KiB buffer are not constant
/// for symex, and the decoder itself is decided separately (c16_rotation_*)
fn msg_of(buf: &mut MsgBuffer, has_confirm: bool) -> RotationMessage {
    let m = buf.message();
    assert!(m.len() == if has_confirm { 8 + 1 + 32 + 1 + 32 } else { 8 + 1 + 32 + 1 });
    let mut idb = [0u8; 8];
    idb.copy_from_slice(&m[..8]);
    assert!(m[8] == 32);
    let mut p = [0u8; 32];
    p.copy_from_slice(&m[9..41]);
    let mut c = [0u8; 32];
    if has_confirm {
        assert!(m[41] == 32);
        c.copy_from_slice(&m[42..74]);
    } else {
        assert!(m[41] == 0);
    }
    let msg = RotationMessage { message_id: u64::from_be_bytes(idb), propose: key_of(&p, 32), confirm: if has_confirm { Some(key_of(&c, 32)) } else { None } };
    buf.clear();
    msg
}

fn same_key_bytes(a: &Key, b: &Key) -> bool {
    if a.len() != b.len() {
        return false;
    }
    let mut i = 0;
    while i < 32 {
        if i < a.len() && a[i] != b[i] {
            return false;
        }
        i += 1;
    }
    true
}

fn xor_is(k: &Key, x: &[u8], y: &[u8]) -> bool {
    if k.len() != 32 || x.len() != 32 || y.len() != 32 {
        return false;
    }
    let mut i = 0;
    while i < 32 {
        if k[i] != x[i] ^ y[i] {
            return false;
        }
        i += 1;
    }
    true
}

/// One loss-free rotation round, decided as its two halves (a three-operation run of both machines in one harness
/// exhausts 24 GB). ECDH is the model's commutative function: shared(a, pub(b)) = pub(a) XOR pub(b), so "both ends
/// derive the same key material" is expressible from the public values that travel in the messages.
///
/// Receiver half, step 1: a proposal P with an id above the own one is answered by a fresh key pair; the key
/// shared(C, P) and the public value C are kept PENDING (nothing is installed or sent yet); a proposal without a
/// confirmation never switches the sending key.
#[cfg_attr(kani, kani::proof, kani::unwind(36))]
pub fn c07_receiver_half_proposal_becomes_pending() {
    let p: [u8; 32] = kani::any();
    let own: u64 = kani::any();
    let id: u64 = kani::any();
    kani::assume(id > own);
    let mut a = RotationState { confirmed: None, pending: None, proposed: None, message_id: own, timeout: true };
    let r = a.process_message(RotationMessage { message_id: id, propose: key_of(&p, 32), confirm: None });
    assert!(r.is_none());
    assert!(a.pending.is_some() && a.proposed.is_none() && a.message_id == own && !a.timeout);
    let (k, c) = a.pending.as_ref().unwrap();
    assert!(xor_is(k, c.bytes(), &p));
    std::mem::forget(a);
    witness!();
}

/// Receiver half, step 2: on its next cycle a node with a pending (key K, public value C) and no outstanding proposal
/// installs K for RECEIVING under its next even id and sends exactly C as confirmation under that id, together with a
/// fresh proposal of its own - so the peer can only start sending with K after this node holds it.
#[cfg_attr(kani, kani::proof, kani::unwind(36))]
pub fn c07_receiver_half_cycle_installs_then_confirms() {
    let kbytes: [u8; 32] = kani::any();
    let cbytes: [u8; 32] = kani::any();
    let own: u64 = kani::any();
    kani::assume(own < u64::MAX - 4);
    let mut k: Key = SmallVec::new();
    let mut i = 0;
    while i < 32 {
        k.push(kbytes[i]);
        i += 1;
    }
    let mut a = RotationState { confirmed: None, pending: Some((k, key_of(&cbytes, 32))), proposed: None, message_id: own, timeout: false };
    let mut out = MsgBuffer::new(8);
    let ka = a.cycle(&mut out);
    assert!(ka.is_some());
    let ka = ka.unwrap();
    assert!(!ka.use_for_sending && ka.id == own + 2);
    assert!(ka.key.len() == 32);
    let mut i = 0;
    while i < 32 {
        assert!(ka.key[i] == kbytes[i]);
        i += 1;
    }
    let m = msg_of(&mut out, true);
    assert!(m.message_id == own + 2);
    assert!(same_key(m.confirm.as_ref().unwrap(), &cbytes, 32));
    assert!(a.proposed.is_some() && a.pending.is_none() && a.confirmed.is_some() && a.message_id == own + 2);
    std::mem::forget(a);
    witness!();
}

/// Sender half: a node with an outstanding proposal (public value P_b) that receives a message with a higher id carrying
/// confirmation C starts SENDING with shared(P_b, C) under exactly that message id - the key and id the confirming peer
/// installed for receiving (receiver half) - and keeps the peer's new proposal pending.
#[cfg_attr(kani, kani::proof, kani::unwind(36))]
pub fn c07_sender_half_switches_to_confirmed_key() {
    let c: [u8; 32] = kani::any();
    let x: [u8; 32] = kani::any();
    let own: u64 = kani::any();
    let id: u64 = kani::any();
    kani::assume(id > own);
    let (private_key, public_key) = RotationState::create_key();
    let mut pb = [0u8; 32];
    pb.copy_from_slice(&public_key.bytes()[..32]);
    let mut b = RotationState { confirmed: None, pending: None, proposed: Some(private_key), message_id: own, timeout: true };
    let kb = b.process_message(RotationMessage { message_id: id, propose: key_of(&x, 32), confirm: Some(key_of(&c, 32)) });
    assert!(kb.is_some());
    let kb = kb.unwrap();
    assert!(kb.use_for_sending && kb.id == id);
    assert!(xor_is(&kb.key, &pb, &c));
    assert!(b.proposed.is_none() && b.pending.is_some() && !b.timeout);
    // the own id only moves on the own cycle
    assert!(b.message_id == own);
    std::mem::forget(b);
    witness!();
}

/// a duplicated or stale rotation message (id not above the own id) is ignored: nothing installed, state untouched
#[cfg_attr(kani, kani::proof, kani::unwind(36))]
pub fn c07_stale_or_duplicate_message_is_ignored() {
    let own: u64 = kani::any();
    let id: u64 = kani::any();
    let p: [u8; 32] = kani::any();
    let c: [u8; 32] = kani::any();
    let has_c: bool = kani::any();
    kani::assume(id <= own);
    let (private_key, _pk) = RotationState::create_key();
    let mut s = RotationState { confirmed: None, pending: None, proposed: Some(private_key), message_id: own, timeout: true };
    let r = s.process_message(RotationMessage { message_id: id, propose: key_of(&p, 32), confirm: if has_c { Some(key_of(&c, 32)) } else { None } });
    assert!(r.is_none());
    assert!(s.message_id == own && s.timeout && s.pending.is_none() && s.proposed.is_some() && s.confirmed.is_none());
    std::mem::forget(s);
    witness!();
}

/// a lost proposal only postpones: the next cycle arms the timeout, the one after re-sends the SAME proposal under the
/// same id (no new key material, nothing installed)
#[cfg_attr(kani, kani::proof, kani::unwind(36))]
pub fn c07_lost_message_is_resent_unchanged() {
    let mut out = MsgBuffer::new(8);
    let mut b = RotationState::new(true, &mut out);
    let first = msg_of(&mut out, false);
    let r1 = b.cycle(&mut out);
    assert!(r1.is_none() && out.is_empty());
    let r2 = b.cycle(&mut out);
    assert!(r2.is_none() && !out.is_empty());
    let again = msg_of(&mut out, false);
    assert!(again.message_id == first.message_id && again.confirm.is_none());
    let (x, y) = (first.propose.bytes(), again.propose.bytes());
    assert!(x.len() == 32 && y.len() == 32);
    let mut i = 0;
    while i < 32 {
        assert!(x[i] == y[i]);
        i += 1;
    }
    std::mem::forget(b);
    witness!();
}

/// a lost message that carried a confirmation is re-sent UNCHANGED: same id, same confirmation, same proposal; the own
/// id does not move and nothing is installed (the key was installed for receiving under that id when it was first sent)
#[cfg_attr(kani, kani::proof, kani::unwind(36))]
pub fn c07_resend_with_confirmation_keeps_id_and_content() {
    let c: [u8; 32] = kani::any();
    let id: u64 = kani::any();
    kani::assume(id >= 2 && id < u64::MAX - 4);
    let (private_key, public_key) = RotationState::create_key();
    let mut pb = [0u8; 32];
    pb.copy_from_slice(&public_key.bytes()[..32]);
    let mut s = RotationState { confirmed: Some((key_of(&c, 32), id)), pending: None, proposed: Some(private_key), message_id: id, timeout: true };
    let mut out = MsgBuffer::new(8);
    let r = s.cycle(&mut out);
    assert!(r.is_none());
    let m = msg_of(&mut out, true);
    assert!(m.message_id == id);
    assert!(same_key(m.confirm.as_ref().unwrap(), &c, 32));
    assert!(same_key(&m.propose, &pb, 32));
    assert!(s.message_id == id && s.proposed.is_some() && s.pending.is_none());
    match &s.confirmed {
        Some((k, i)) => assert!(*i == id && same_key(k, &c, 32)),
        None => assert!(false),
    }
    std::mem::forget(s);
    witness!();
}

/// rotation state with a pending (key, public value) and no outstanding proposal, own id as given
pub fn pending_state(own_id: u64, kbytes: &[u8; 32], cbytes: &[u8; 32]) -> RotationState {
    let mut k: Key = SmallVec::new();
    let mut i = 0;
    while i < 32 {
        k.push(kbytes[i]);
        i += 1;
    }
    RotationState { confirmed: None, pending: Some((k, key_of(cbytes, 32))), proposed: None, message_id: own_id, timeout: false }
}

// harnesses: init

#!/bin/bash
# Run a property's check against a seeded change: apply /verif/seeded/<id>/patch.diff to /repo, run, revert.
# Usage: seed_eval.sh <seed id> <property> [tier]    -> prints verdict line; evidence goes to .work/seed-evidence
ID=$1; PROP=$2; TIER=${3:-quick}
cd /verif || exit 2
git -C /repo diff --quiet || { echo "/repo has uncommitted changes, refusing"; exit 2; }
git -C /repo apply /verif/seeded/$ID/patch.diff || { echo "patch does not apply"; exit 2; }
mkdir -p .work/seed-evidence
VERIF_EVIDENCE_DIR=/verif/.work/seed-evidence ./check $PROP --tier $TIER > .work/seed-evidence/$ID.$PROP.$TIER.out 2>&1
rc=$?
git -C /repo checkout -- .
git -C /repo diff --quiet || echo "WARNING: /repo not clean after revert"
echo "SEED $ID property=$PROP tier=$TIER exit=$rc $(grep -c '^VIOLATION' .work/seed-evidence/$ID.$PROP.$TIER.out) violation line(s): $(grep '^VIOLATION' .work/seed-evidence/$ID.$PROP.$TIER.out | head -2 | tr '\n' ' ')"

// harnesses: types

//! `std` shim placed in front of selected included modules by `use crate::vstd as std;`.
//! Everything is real std except `collections::HashMap`, which is an insertion-ordered association list:
//! hashbrown + fnv do not complete under CBMC (insert+get of one 4-byte key > 300 s). Assumption recorded in
//! evidence: the checked functions do not depend on hash iteration order.
pub use ::std::*;

pub mod collections {
    pub use ::std::collections::*;
    use ::std::marker::PhantomData;

    pub struct HashMap<K, V, S = ()> {
        pub items: smallvec::ivec::IVec<(K, V), 8>,
        _s: PhantomData<S>,
    }

    impl<K, V, S> Default for HashMap<K, V, S> {
        fn default() -> Self {
            HashMap { items: smallvec::ivec::IVec::new(), _s: PhantomData }
        }
    }

    impl<K: PartialEq, V, S> HashMap<K, V, S> {
        pub fn new() -> Self {
            Self::default()
        }
        fn pos(&self, k: &K) -> Option<usize> {
            let mut i = 0;
            while i < self.items.len() {
                if &self.items[i].0 == k {
                    return Some(i);
                }
                i += 1;
            }
            None
        }
        pub fn insert(&mut self, k: K, v: V) -> Option<V> {
            match self.pos(&k) {
                Some(i) => Some(::std::mem::replace(&mut self.items[i].1, v)),
                None => {
                    self.items.push((k, v));
                    None
                }
            }
        }
        pub fn get(&self, k: &K) -> Option<&V> {
            match self.pos(k) {
                Some(i) => Some(&self.items[i].1),
                None => None,
            }
        }
        pub fn get_mut(&mut self, k: &K) -> Option<&mut V> {
            match self.pos(k) {
                Some(i) => Some(&mut self.items[i].1),
                None => None,
            }
        }
        pub fn contains_key(&self, k: &K) -> bool {
            self.pos(k).is_some()
        }
        pub fn remove(&mut self, k: &K) -> Option<V> {
            match self.pos(k) {
                Some(i) => Some(self.items.remove(i).1),
                None => None,
            }
        }
        pub fn retain<F: FnMut(&K, &mut V) -> bool>(&mut self, mut f: F) {
            self.items.retain_mut(|kv| {
                let (k, v) = kv;
                f(k, v)
            })
        }
        pub fn len(&self) -> usize {
            self.items.len()
        }
        pub fn is_empty(&self) -> bool {
            self.items.is_empty()
        }
        pub fn clear(&mut self) {
            self.items.clear()
        }
        pub fn entry(&mut self, k: K) -> Entry<'_, K, V, S> {
            Entry { map: self, key: k }
        }
        pub fn values(&self) -> impl Iterator<Item = &V> {
            self.items.iter().map(|kv| &kv.1)
        }
        pub fn values_mut(&mut self) -> impl Iterator<Item = &mut V> {
            self.items.iter_mut().map(|kv| &mut kv.1)
        }
        pub fn keys(&self) -> impl Iterator<Item = &K> {
            self.items.iter().map(|kv| &kv.0)
        }
        pub fn iter(&self) -> impl Iterator<Item = (&K, &V)> {
            self.items.iter().map(|kv| (&kv.0, &kv.1))
        }
    }

    pub struct Entry<'a, K, V, S> {
        map: &'a mut HashMap<K, V, S>,
        key: K,
    }
    impl<'a, K: PartialEq, V, S> Entry<'a, K, V, S> {
        pub fn or_insert(self, default: V) -> &'a mut V {
            let i = match self.map.pos(&self.key) {
                Some(i) => i,
                None => {
                    self.map.items.push((self.key, default));
                    self.map.items.len() - 1
                }
            };
            &mut self.map.items.as_mut_slice()[i].1
        }
        pub fn or_insert_with<F: FnOnce() -> V>(self, f: F) -> &'a mut V {
            let i = match self.map.pos(&self.key) {
                Some(i) => i,
                None => {
                    self.map.items.push((self.key, f()));
                    self.map.items.len() - 1
                }
            };
            &mut self.map.items.as_mut_slice()[i].1
        }
        pub fn or_default(self) -> &'a mut V
        where
            V: Default,
        {
            self.or_insert_with(V::default)
        }
    }

    impl<'a, K, V, S> IntoIterator for &'a HashMap<K, V, S> {
        type Item = (&'a K, &'a V);
        type IntoIter = ::std::iter::Map<::std::slice::Iter<'a, (K, V)>, fn(&'a (K, V)) -> (&'a K, &'a V)>;
        fn into_iter(self) -> Self::IntoIter {
            fn split<'b, K, V>(kv: &'b (K, V)) -> (&'b K, &'b V) {
                (&kv.0, &kv.1)
            }
            self.items.iter().map(split as fn(&'a (K, V)) -> (&'a K, &'a V))
        }
    }
}

/// `Vec` stand-in for modules whose vectors get a symbolic length under verification (ClaimTable.claims):
/// fixed-capacity inline storage, same API subset; exceeding the capacity is an assertion failure.
pub mod vecmodel {
    pub type Vec<T> = smallvec::ivec::IVec<T, 8>;
}

// harnesses over /repo/src/crypto/init.rs  (C06)
use std::sync::Arc as VArc;

#[derive(Debug, PartialEq)]
pub struct NoPayload;
impl Payload for NoPayload {
    fn write_to(&self, buffer: &mut MsgBuffer) {
        buffer.set_length(0)
    }
    fn read_from<R: Read>(_r: R) -> Result<Self, Error> {
        Ok(NoPayload)
    }
}

fn algo(i: usize) -> &'static Algorithm {
    match i {
        0 => &AES_128_GCM,
        1 => &AES_256_GCM,
        _ => &CHACHA20_POLY1305,
    }
}

/// the 16 ordered subsets of {aes128, aes256, chacha20}; `rev` yields the same set in reversed list order
fn shape(idx: usize, rev: bool) -> ([usize; 3], usize) {
    let (a, n): ([usize; 3], usize) = match idx {
        0 => ([0, 0, 0], 0),
        1 => ([0, 0, 0], 1),
        2 => ([1, 0, 0], 1),
        3 => ([2, 0, 0], 1),
        4 => ([0, 1, 0], 2),
        5 => ([0, 2, 0], 2),
        6 => ([1, 0, 0], 2),
        7 => ([1, 2, 0], 2),
        8 => ([2, 0, 0], 2),
        9 => ([2, 1, 0], 2),
        10 => ([0, 1, 2], 3),
        11 => ([0, 2, 1], 3),
        12 => ([1, 0, 2], 3),
        13 => ([1, 2, 0], 3),
        14 => ([2, 0, 1], 3),
        15 => ([2, 1, 0], 3),
        _ => ([0, 0, 0], 0),
    };
    if rev && n >= 2 {
        let mut r = a;
        r[0] = a[n - 1];
        r[n - 1] = a[0];
        (r, n)
    } else {
        (a, n)
    }
}

pub fn mk_algos(idx: usize, rev: bool, speeds: &[f32; 3], plain: bool) -> Algorithms {
    let (order, n) = shape(idx, rev);
    let mut v = SmallVec::new();
    let mut i = 0;
    while i < n {
        // the speed belongs to the cipher, not to the list position
        v.push((algo(order[i]), speeds[order[i]]));
        i += 1;
    }
    Algorithms { algorithm_speeds: v, allow_unencrypted: plain }
}

pub fn mk_state(algorithms: Algorithms) -> InitState<NoPayload> {
    let kp = Ed25519KeyPair::from_seed_unchecked(&[7u8; 32]).unwrap();
    let tk: VArc<[Ed25519PublicKey]> = VArc::new([[0u8; 32]]);
    InitState {
        node_id: [1; 16],
        salted_node_id_hash: [2; 20],
        payload: NoPayload,
        key_pair: VArc::new(kp),
        trusted_keys: tk,
        ecdh_private_key: None,
        next_stage: STAGE_PING,
        close_time: 60,
        last_message: None,
        crypto: None,
        algorithms,
        selected_algorithm: None,
        failed_retries: 0,
    }
}

/// outcome of a selection: 0 = error, 1 = plain, 2 + i = cipher i
fn outcome(r: Result<Option<(&'static Algorithm, f32)>, Error>) -> (u8, f32) {
    match r {
        Err(e) => {
            std::mem::forget(e);
            (0, 0.0)
        }
        Ok(None) => (1, 0.0),
        Ok(Some((a, s))) => (if a == &AES_128_GCM { 2 } else if a == &AES_256_GCM { 3 } else { 4 }, s),
    }
}

fn has(idx: usize, c: usize) -> bool {
    let (o, n) = shape(idx, false);
    (n > 0 && o[0] == c) || (n > 1 && o[1] == c) || (n > 2 && o[2] == c)
}

/// C06: both ends select the same cipher; plain iff both flags; error iff no flag pair and no common cipher; the
/// choice maximises the slower side's speed; the outcome does not depend on list order or on who evaluates.
fn select_symmetric(sa: usize, sb: usize) {
    let speeds_a: [f32; 3] = kani::any();
    let speeds_b: [f32; 3] = kani::any();
    let plain_a: bool = kani::any();
    let plain_b: bool = kani::any();
    let mut i = 0;
    while i < 3 {
        // measurable speeds: finite, non-negative (the property excludes NaN)
        kani::assume(speeds_a[i].is_finite() && speeds_a[i] >= 0.0);
        kani::assume(speeds_b[i].is_finite() && speeds_b[i] >= 0.0);
        i += 1;
    }
    #[cfg(vh_kf_c06_tie)]
    {
        // known finding assumed away: no two common ciphers with equal slower-side speed
        let m = |c: usize| if speeds_a[c] < speeds_b[c] { speeds_a[c] } else { speeds_b[c] };
        kani::assume(!(has(sa, 0) && has(sb, 0) && has(sa, 1) && has(sb, 1) && m(0) == m(1)));
        kani::assume(!(has(sa, 0) && has(sb, 0) && has(sa, 2) && has(sb, 2) && m(0) == m(2)));
        kani::assume(!(has(sa, 1) && has(sb, 1) && has(sa, 2) && has(sb, 2) && m(1) == m(2)));
    }
    let a = mk_state(mk_algos(sa, false, &speeds_a, plain_a));
    let b = mk_state(mk_algos(sb, false, &speeds_b, plain_b));
    let a_rev = mk_state(mk_algos(sa, true, &speeds_a, plain_a));
    let (ra, spa) = outcome(a.select_algorithm(&b.algorithms));
    let (rb, spb) = outcome(b.select_algorithm(&a.algorithms));
    let (rr, _) = outcome(a_rev.select_algorithm(&b.algorithms));
    // (b) plain iff both enabled it
    assert!((ra == 1) == (plain_a && plain_b));
    // (c) clean failure iff nothing in common
    let common = (has(sa, 0) && has(sb, 0)) || (has(sa, 1) && has(sb, 1)) || (has(sa, 2) && has(sb, 2));
    assert!((ra == 0) == (!(plain_a && plain_b) && !common));
    // (d) a cipher both support whose slower side is fastest
    if ra >= 2 {
        let c = (ra - 2) as usize;
        assert!(has(sa, c) && has(sb, c));
        let mc = if speeds_a[c] < speeds_b[c] { speeds_a[c] } else { speeds_b[c] };
        assert!(spa == mc);
        let mut d = 0;
        while d < 3 {
            if has(sa, d) && has(sb, d) {
                let md = if speeds_a[d] < speeds_b[d] { speeds_a[d] } else { speeds_b[d] };
                assert!(md <= mc);
            }
            d += 1;
        }
    }
    // (a) both ends agree, (e) list order does not matter
    assert!(ra == rb);
    assert!(ra == rr);
    let _ = spb;
    std::mem::forget(a);
    std::mem::forget(b);
    std::mem::forget(a_rev);
    vcover!(ra >= 2, "cipher_selected");
    witness!();
}
macro_rules! sel_inst {
    ($($name:ident = ($a:expr, $b:expr)),*) => {$(
        #[cfg_attr(kani, kani::proof, kani::unwind(34))]
        pub fn $name() {
            select_symmetric($a, $b)
        }
    )*};
}
sel_inst!(c06_sel_a00_b00 = (0, 0), c06_sel_a00_b01 = (0, 1), c06_sel_a00_b02 = (0, 2), c06_sel_a00_b03 = (0, 3), c06_sel_a00_b04 = (0, 4), c06_sel_a00_b05 = (0, 5), c06_sel_a00_b06 = (0, 6), c06_sel_a00_b07 = (0, 7), c06_sel_a00_b08 = (0, 8), c06_sel_a00_b09 = (0, 9), c06_sel_a00_b10 = (0, 10), c06_sel_a00_b11 = (0, 11), c06_sel_a00_b12 = (0, 12), c06_sel_a00_b13 = (0, 13), c06_sel_a00_b14 = (0, 14), c06_sel_a00_b15 = (0, 15), c06_sel_a01_b00 = (1, 0), c06_sel_a01_b01 = (1, 1), c06_sel_a01_b02 = (1, 2), c06_sel_a01_b03 = (1, 3), c06_sel_a01_b04 = (1, 4), c06_sel_a01_b05 = (1, 5), c06_sel_a01_b06 = (1, 6), c06_sel_a01_b07 = (1, 7), c06_sel_a01_b08 = (1, 8), c06_sel_a01_b09 = (1, 9), c06_sel_a01_b10 = (1, 10), c06_sel_a01_b11 = (1, 11), c06_sel_a01_b12 = (1, 12), c06_sel_a01_b13 = (1, 13), c06_sel_a01_b14 = (1, 14), c06_sel_a01_b15 = (1, 15), c06_sel_a02_b00 = (2, 0), c06_sel_a02_b01 = (2, 1), c06_sel_a02_b02 = (2, 2), c06_sel_a02_b03 = (2, 3), c06_sel_a02_b04 = (2, 4), c06_sel_a02_b05 = (2, 5), c06_sel_a02_b06 = (2, 6), c06_sel_a02_b07 = (2, 7), c06_sel_a02_b08 = (2, 8), c06_sel_a02_b09 = (2, 9), c06_sel_a02_b10 = (2, 10), c06_sel_a02_b11 = (2, 11), c06_sel_a02_b12 = (2, 12), c06_sel_a02_b13 = (2, 13), c06_sel_a02_b14 = (2, 14), c06_sel_a02_b15 = (2, 15), c06_sel_a03_b00 = (3, 0), c06_sel_a03_b01 = (3, 1), c06_sel_a03_b02 = (3, 2), c06_sel_a03_b03 = (3, 3), c06_sel_a03_b04 = (3, 4), c06_sel_a03_b05 = (3, 5), c06_sel_a03_b06 = (3, 6), c06_sel_a03_b07 = (3, 7), c06_sel_a03_b08 = (3, 8), c06_sel_a03_b09 = (3, 9), c06_sel_a03_b10 = (3, 10), c06_sel_a03_b11 = (3, 11), c06_sel_a03_b12 = (3, 12), c06_sel_a03_b13 = (3, 13), c06_sel_a03_b14 = (3, 14), c06_sel_a03_b15 = (3, 15), c06_sel_a04_b00 = (4, 0), c06_sel_a04_b01 = (4, 1), c06_sel_a04_b02 = (4, 2), c06_sel_a04_b03 = (4, 3), c06_sel_a04_b04 = (4, 4), c06_sel_a04_b05 = (4, 5), c06_sel_a04_b06 = (4, 6), c06_sel_a04_b07 = (4, 7), c06_sel_a04_b08 = (4, 8), c06_sel_a04_b09 = (4, 9), c06_sel_a04_b10 = (4, 10), c06_sel_a04_b11 = (4, 11), c06_sel_a04_b12 = (4, 12), c06_sel_a04_b13 = (4, 13), c06_sel_a04_b14 = (4, 14), c06_sel_a04_b15 = (4, 15), c06_sel_a05_b00 = (5, 0), c06_sel_a05_b01 = (5, 1), c06_sel_a05_b02 = (5, 2), c06_sel_a05_b03 = (5, 3), c06_sel_a05_b04 = (5, 4), c06_sel_a05_b05 = (5, 5), c06_sel_a05_b06 = (5, 6), c06_sel_a05_b07 = (5, 7), c06_sel_a05_b08 = (5, 8), c06_sel_a05_b09 = (5, 9), c06_sel_a05_b10 = (5, 10), c06_sel_a05_b11 = (5, 11), c06_sel_a05_b12 = (5, 12), c06_sel_a05_b13 = (5, 13), c06_sel_a05_b14 = (5, 14), c06_sel_a05_b15 = (5, 15), c06_sel_a06_b00 = (6, 0), c06_sel_a06_b01 = (6, 1), c06_sel_a06_b02 = (6, 2), c06_sel_a06_b03 = (6, 3), c06_sel_a06_b04 = (6, 4), c06_sel_a06_b05 = (6, 5), c06_sel_a06_b06 = (6, 6), c06_sel_a06_b07 = (6, 7), c06_sel_a06_b08 = (6, 8), c06_sel_a06_b09 = (6, 9), c06_sel_a06_b10 = (6, 10), c06_sel_a06_b11 = (6, 11), c06_sel_a06_b12 = (6, 12), c06_sel_a06_b13 = (6, 13), c06_sel_a06_b14 = (6, 14), c06_sel_a06_b15 = (6, 15), c06_sel_a07_b00 = (7, 0), c06_sel_a07_b01 = (7, 1), c06_sel_a07_b02 = (7, 2), c06_sel_a07_b03 = (7, 3), c06_sel_a07_b04 = (7, 4), c06_sel_a07_b05 = (7, 5), c06_sel_a07_b06 = (7, 6), c06_sel_a07_b07 = (7, 7), c06_sel_a07_b08 = (7, 8), c06_sel_a07_b09 = (7, 9), c06_sel_a07_b10 = (7, 10), c06_sel_a07_b11 = (7, 11), c06_sel_a07_b12 = (7, 12), c06_sel_a07_b13 = (7, 13), c06_sel_a07_b14 = (7, 14), c06_sel_a07_b15 = (7, 15), c06_sel_a08_b00 = (8, 0), c06_sel_a08_b01 = (8, 1), c06_sel_a08_b02 = (8, 2), c06_sel_a08_b03 = (8, 3), c06_sel_a08_b04 = (8, 4), c06_sel_a08_b05 = (8, 5), c06_sel_a08_b06 = (8, 6), c06_sel_a08_b07 = (8, 7), c06_sel_a08_b08 = (8, 8), c06_sel_a08_b09 = (8, 9), c06_sel_a08_b10 = (8, 10), c06_sel_a08_b11 = (8, 11), c06_sel_a08_b12 = (8, 12), c06_sel_a08_b13 = (8, 13), c06_sel_a08_b14 = (8, 14), c06_sel_a08_b15 = (8, 15), c06_sel_a09_b00 = (9, 0), c06_sel_a09_b01 = (9, 1), c06_sel_a09_b02 = (9, 2), c06_sel_a09_b03 = (9, 3), c06_sel_a09_b04 = (9, 4), c06_sel_a09_b05 = (9, 5), c06_sel_a09_b06 = (9, 6), c06_sel_a09_b07 = (9, 7), c06_sel_a09_b08 = (9, 8), c06_sel_a09_b09 = (9, 9), c06_sel_a09_b10 = (9, 10), c06_sel_a09_b11 = (9, 11), c06_sel_a09_b12 = (9, 12), c06_sel_a09_b13 = (9, 13), c06_sel_a09_b14 = (9, 14), c06_sel_a09_b15 = (9, 15), c06_sel_a10_b00 = (10, 0), c06_sel_a10_b01 = (10, 1), c06_sel_a10_b02 = (10, 2), c06_sel_a10_b03 = (10, 3), c06_sel_a10_b04 = (10, 4), c06_sel_a10_b05 = (10, 5), c06_sel_a10_b06 = (10, 6), c06_sel_a10_b07 = (10, 7), c06_sel_a10_b08 = (10, 8), c06_sel_a10_b09 = (10, 9), c06_sel_a10_b10 = (10, 10), c06_sel_a10_b11 = (10, 11), c06_sel_a10_b12 = (10, 12), c06_sel_a10_b13 = (10, 13), c06_sel_a10_b14 = (10, 14), c06_sel_a10_b15 = (10, 15), c06_sel_a11_b00 = (11, 0), c06_sel_a11_b01 = (11, 1), c06_sel_a11_b02 = (11, 2), c06_sel_a11_b03 = (11, 3), c06_sel_a11_b04 = (11, 4), c06_sel_a11_b05 = (11, 5), c06_sel_a11_b06 = (11, 6), c06_sel_a11_b07 = (11, 7), c06_sel_a11_b08 = (11, 8), c06_sel_a11_b09 = (11, 9), c06_sel_a11_b10 = (11, 10), c06_sel_a11_b11 = (11, 11), c06_sel_a11_b12 = (11, 12), c06_sel_a11_b13 = (11, 13), c06_sel_a11_b14 = (11, 14), c06_sel_a11_b15 = (11, 15), c06_sel_a12_b00 = (12, 0), c06_sel_a12_b01 = (12, 1), c06_sel_a12_b02 = (12, 2), c06_sel_a12_b03 = (12, 3), c06_sel_a12_b04 = (12, 4), c06_sel_a12_b05 = (12, 5), c06_sel_a12_b06 = (12, 6), c06_sel_a12_b07 = (12, 7), c06_sel_a12_b08 = (12, 8), c06_sel_a12_b09 = (12, 9), c06_sel_a12_b10 = (12, 10), c06_sel_a12_b11 = (12, 11), c06_sel_a12_b12 = (12, 12), c06_sel_a12_b13 = (12, 13), c06_sel_a12_b14 = (12, 14), c06_sel_a12_b15 = (12, 15), c06_sel_a13_b00 = (13, 0), c06_sel_a13_b01 = (13, 1), c06_sel_a13_b02 = (13, 2), c06_sel_a13_b03 = (13, 3), c06_sel_a13_b04 = (13, 4), c06_sel_a13_b05 = (13, 5), c06_sel_a13_b06 = (13, 6), c06_sel_a13_b07 = (13, 7), c06_sel_a13_b08 = (13, 8), c06_sel_a13_b09 = (13, 9), c06_sel_a13_b10 = (13, 10), c06_sel_a13_b11 = (13, 11), c06_sel_a13_b12 = (13, 12), c06_sel_a13_b13 = (13, 13), c06_sel_a13_b14 = (13, 14), c06_sel_a13_b15 = (13, 15), c06_sel_a14_b00 = (14, 0), c06_sel_a14_b01 = (14, 1), c06_sel_a14_b02 = (14, 2), c06_sel_a14_b03 = (14, 3), c06_sel_a14_b04 = (14, 4), c06_sel_a14_b05 = (14, 5), c06_sel_a14_b06 = (14, 6), c06_sel_a14_b07 = (14, 7), c06_sel_a14_b08 = (14, 8), c06_sel_a14_b09 = (14, 9), c06_sel_a14_b10 = (14, 10), c06_sel_a14_b11 = (14, 11), c06_sel_a14_b12 = (14, 12), c06_sel_a14_b13 = (14, 13), c06_sel_a14_b14 = (14, 14), c06_sel_a14_b15 = (14, 15), c06_sel_a15_b00 = (15, 0), c06_sel_a15_b01 = (15, 1), c06_sel_a15_b02 = (15, 2), c06_sel_a15_b03 = (15, 3), c06_sel_a15_b04 = (15, 4), c06_sel_a15_b05 = (15, 5), c06_sel_a15_b06 = (15, 6), c06_sel_a15_b07 = (15, 7), c06_sel_a15_b08 = (15, 8), c06_sel_a15_b09 = (15, 9), c06_sel_a15_b10 = (15, 10), c06_sel_a15_b11 = (15, 11), c06_sel_a15_b12 = (15, 12), c06_sel_a15_b13 = (15, 13), c06_sel_a15_b14 = (15, 14), c06_sel_a15_b15 = (15, 15));

/// Stand-in for InitState::handle_init in the dispatch harnesses (C08-H2): what a sender WITHOUT a trusted key can
/// cause - the parser/verifier rejects the message with some error before any state or the buffer is touched. (That
/// the real parser does so is the part of C01 that is out of reach; see DESIGN.)
pub fn handle_init_rejects<P: Payload>(_s: &mut InitState<P>, _out: &mut MsgBuffer) -> Result<InitResult<P>, Error> {
    let k: u8 = kani::any();
    Err(match k % 4 {
        0 => Error::Parse("Init message too short"),
        1 => Error::Crypto("untrusted peer"),
        2 => Error::Crypto("invalid signature"),
        _ => Error::CryptoInit("Invalid size for stage field"),
    })
}

// ===================================================================================================== handle_init (one step)
// The handshake parser/verifier (InitMsg::read_from) and the message writer (send_message -> InitMsg::write_to) do not
// complete under symbolic execution. For the obligations below they are replaced by
//   read_from   -> what the parser returns for a datagram that VERIFIED under a trusted key: an arbitrary well-formed
//                  message of the kind selected by the harness (or an arbitrary error), and
//   send_message-> a recorder (stage sent, last_message set, output buffer non-empty),
// so that one real InitState::handle_init step is decided: stage logic, self-connection check, cipher selection, key
// agreement and - for C04 - which nonce half the new CryptoCore gets.
static mut RF_KIND: u8 = 0; // 0 = error, 1 = ping, 2 = pong, 3 = peng
static mut RF_HASH: [u8; 20] = [0; 20];
static mut RF_SHAPE: usize = 10;
static mut SENT_STAGE: u8 = 0;

pub fn read_from_verified(_buffer: &[u8], _trusted: &[Ed25519PublicKey]) -> Result<(InitMsg, Ed25519PublicKey), Error> {
    let kind = unsafe { RF_KIND };
    let hash = unsafe { RF_HASH };
    let pk: [u8; 32] = kani::any();
    match kind {
        1 => {
            let speeds: [f32; 3] = [3.0, 2.0, 1.0];
            let key: [u8; 32] = kani::any();
            let mut v = SmallVec::<[u8; 96]>::new();
            let mut i = 0;
            while i < 32 {
                v.push(key[i]);
                i += 1;
            }
            Ok((InitMsg::Ping { salted_node_id_hash: hash, ecdh_public_key: EcdhPublicKey::new(&X25519, v), algorithms: mk_algos(unsafe { RF_SHAPE }, false, &speeds, false) }, pk))
        }
        _ => {
            let k: u8 = kani::any();
            Err(match k % 4 {
                0 => Error::Parse("Init message too short"),
                1 => Error::Crypto("untrusted peer"),
                2 => Error::Crypto("invalid signature"),
                _ => Error::CryptoInit("Init message without stage"),
            })
        }
    }
}

pub fn send_message_recorder<P: Payload>(s: &mut InitState<P>, stage: u8, _ecdh: Option<EcdhPublicKey>, out: &mut MsgBuffer) {
    assert!(out.is_empty());
    unsafe {
        SENT_STAGE = stage;
    }
    s.last_message = Some(vec![stage]);
    out.set_length(1);
}

fn any_stage() -> u8 {
    let s: u8 = kani::any();
    kani::assume(s >= STAGE_PING && s <= CLOSING);
    s
}

/// C01/C08: a handshake datagram that the parser/verifier rejects (any error) leaves no trace: stage, retry counter,
/// close timer, last message, key material, crypto core and the output buffer are unchanged, and the error is returned
#[cfg_attr(kani, kani::proof, kani::unwind(34), kani::stub(crate::crypto::init::InitMsg::read_from, read_from_verified),
           kani::stub(crate::crypto::init::InitState::send_message, send_message_recorder))]
pub fn c08_rejected_handshake_message_leaves_no_state() {
    let stage = any_stage();
    let retries: usize = kani::any();
    let close_time: usize = kani::any();
    let has_last: bool = kani::any();
    let has_ecdh: bool = kani::any();
    let own: [u8; 20] = kani::any();
    let stale: [u8; 8] = kani::any();
    unsafe {
        RF_KIND = 0;
    }
    let mut st = mk_state(mk_algos(10, false, &[1.0, 2.0, 3.0], false));
    st.salted_node_id_hash = own;
    st.next_stage = stage;
    st.failed_retries = retries;
    st.close_time = close_time;
    st.last_message = if has_last { Some(vec![7, 7]) } else { None };
    if has_ecdh {
        let (k, _) = st.create_ecdh_keypair();
        st.ecdh_private_key = Some(k);
    }
    let mut out = MsgBuffer::new(100);
    out.set_length(8);
    out.message_mut().copy_from_slice(&stale);
    let res = st.handle_init(&mut out);
    match res {
        Ok(_) => assert!(false),
        Err(e) => std::mem::forget(e),
    }
    assert!(st.next_stage == stage && st.failed_retries == retries && st.close_time == close_time);
    assert!(st.last_message.is_some() == has_last && st.ecdh_private_key.is_some() == has_ecdh);
    assert!(st.crypto.is_none() && st.selected_algorithm.is_none());
    assert!(st.salted_node_id_hash == own);
    assert!(out.get_start() == 100 && out.len() == 8);
    let m = out.message();
    let mut i = 0;
    while i < 8 {
        assert!(m[i] == stale[i]);
        i += 1;
    }
    std::mem::forget(st);
    witness!();
}

/// C04 (half decision at the real call site) + C06 (the selected cipher is the one installed): a fresh responder that
/// receives a verified ping from a peer with salted hash H (not itself) creates its crypto core in the half
/// `own_hash > H`, with the cipher `select_algorithm` chose, answers with a pong and awaits the peng.
#[cfg_attr(kani, kani::proof, kani::unwind(34), kani::stub(crate::crypto::init::InitMsg::read_from, read_from_verified),
           kani::stub(crate::crypto::init::InitState::send_message, send_message_recorder))]
pub fn c04_responder_half_is_hash_order() {
    let own: [u8; 20] = kani::any();
    let peer: [u8; 20] = kani::any();
    unsafe {
        RF_KIND = 1;
        RF_HASH = peer;
        RF_SHAPE = 2;
        SENT_STAGE = 0;
    }
    let mut st = mk_state(mk_algos(2, false, &[1.0, 2.0, 3.0], false));
    st.salted_node_id_hash = own;
    let mut out = MsgBuffer::new(100);
    out.set_length(40);
    // is the peer's salted hash one made from OUR node id (with any salt)? (same digest query as the code will make)
    let own_id_hash = st.check_salted_node_id_hash(&peer, st.node_id);
    let res = st.handle_init(&mut out);
    let mut same = own_id_hash;
    let mut i = 0;
    let mut eq = true;
    while i < 20 {
        if own[i] != peer[i] {
            eq = false;
        }
        i += 1;
    }
    same = same || eq;
    match res {
        Err(e) => {
            std::mem::forget(e);
            // with a common cipher the only refusal is the self-connection check
            assert!(same);
            assert!(st.crypto.is_none() && st.next_stage == STAGE_PING);
        }
        Ok(r) => {
            assert!(matches!(r, InitResult::Continue));
            assert!(!same);
            assert!(st.next_stage == STAGE_PENG && unsafe { SENT_STAGE } == STAGE_PONG && !out.is_empty());
            let core = st.crypto.as_ref().unwrap();
            assert!(crate::crypto::core::verif::half_of(core) == (own > peer));
            // both lists are [aes256] (the selection function itself is C06's subject)
            assert!(st.selected_algorithm == Some(&AES_256_GCM));
            assert!(core.algorithm() == &AES_256_GCM);
            assert!(st.failed_retries == 0);
        }
    }
    std::mem::forget(st);
    witness!();
}

/// C14 (self-connection kernel): a verified ping that comes from ANOTHER handshake object of the same node - its salted
/// hash is salt' || SHA-256(salt' || own node id)[..16] for an arbitrary salt' - is refused as "connected to self":
/// no crypto core, no reply, stage unchanged. (The node meets itself this way when it dials one of its own addresses it
/// does not know to be its own: the responder object it creates has a different salt than the dialling one.)
#[cfg_attr(kani, kani::proof, kani::unwind(34), kani::stub(crate::crypto::init::InitMsg::read_from, read_from_verified),
           kani::stub(crate::crypto::init::InitState::send_message, send_message_recorder))]
pub fn c14_ping_from_own_node_id_is_refused() {
    let node_id: NodeId = kani::any();
    let salt2: [u8; 4] = kani::any();
    let kp = Ed25519KeyPair::from_seed_unchecked(&[7u8; 32]).unwrap();
    let tk: VArc<[Ed25519PublicKey]> = VArc::new([[0u8; 32]]);
    // the responder object, made by the real constructor (own random salt)
    let mut st: InitState<NoPayload> = InitState::new(node_id, NoPayload, VArc::new(kp), tk, mk_algos(2, false, &[1.0, 2.0, 3.0], false));
    // the salted hash the same node's dialling object carries
    let mut h = [0u8; SALTED_NODE_ID_HASH_LEN];
    h[0..4].copy_from_slice(&salt2);
    h[4..].copy_from_slice(&node_id);
    let d = digest::digest(&digest::SHA256, &h);
    h[4..].copy_from_slice(&d.as_ref()[..16]);
    unsafe {
        RF_KIND = 1;
        RF_HASH = h;
        RF_SHAPE = 2;
        SENT_STAGE = 0;
    }
    let mut out = MsgBuffer::new(100);
    out.set_length(40);
    let res = st.handle_init(&mut out);
    match res {
        Ok(_) => assert!(false, "a node completed a handshake step with itself"),
        Err(e) => {
            assert!(matches!(e, Error::CryptoInitFatal(_)));
            std::mem::forget(e);
        }
    }
    assert!(st.crypto.is_none() && st.next_stage == STAGE_PING && unsafe { SENT_STAGE } == 0);
    std::mem::forget(st);
    witness!();
}

// ===================================================================================================== C05 kernels
/// Simultaneous open: an end that has sent its ping and is awaiting the pong receives the other end's (verified) ping.
/// Decided: it switches to the responder role - forgets its own ping and ECDH key, creates the core in the half
/// `own_hash > peer_hash`, answers with a pong, awaits the peng - if and only if the peer's salted hash is GREATER than
/// its own; otherwise it ignores the ping (no reply, no state change) and keeps waiting for the pong. Both ends evaluate
/// the same two values, and `>` is antisymmetric (c04_half_decision_antisymmetric): exactly one end switches.
#[cfg_attr(kani, kani::proof, kani::unwind(34), kani::stub(crate::crypto::init::InitMsg::read_from, read_from_verified),
           kani::stub(crate::crypto::init::InitState::send_message, send_message_recorder))]
pub fn c05_simultaneous_open_exactly_the_smaller_hash_yields() {
    let own: [u8; 20] = kani::any();
    let peer: [u8; 20] = kani::any();
    let retries: usize = kani::any();
    kani::assume(retries < MAX_FAILED_RETRIES);
    unsafe {
        RF_KIND = 1;
        RF_HASH = peer;
        RF_SHAPE = 2;
        SENT_STAGE = 0;
    }
    let mut st = mk_state(mk_algos(2, false, &[1.0, 2.0, 3.0], false));
    st.salted_node_id_hash = own;
    // as after send_ping()
    let (k, _) = st.create_ecdh_keypair();
    st.ecdh_private_key = Some(k);
    st.last_message = Some(vec![STAGE_PING]);
    st.next_stage = STAGE_PONG;
    st.failed_retries = retries;
    let mut out = MsgBuffer::new(100);
    out.set_length(40);
    // refused as self-connection iff the hashes are identical or the peer's hash derives from our node id
    let mut same = st.check_salted_node_id_hash(&peer, st.node_id);
    let res = st.handle_init(&mut out);
    let mut eq = true;
    let mut i = 0;
    while i < 20 {
        if own[i] != peer[i] {
            eq = false;
        }
        i += 1;
    }
    same = same || eq;
    match res {
        Err(e) => {
            std::mem::forget(e);
            assert!(same);
        }
        Ok(r) => {
            assert!(matches!(r, InitResult::Continue));
            assert!(!same);
            if peer > own {
                // yields: now a responder
                assert!(st.next_stage == STAGE_PENG && unsafe { SENT_STAGE } == STAGE_PONG && !out.is_empty());
                assert!(st.ecdh_private_key.is_none());
                let core = st.crypto.as_ref().unwrap();
                assert!(!crate::crypto::core::verif::half_of(core));
                assert!(st.failed_retries == 0);
            } else {
                // insists: ignores the ping
                assert!(st.next_stage == STAGE_PONG && unsafe { SENT_STAGE } == 0 && out.is_empty());
                assert!(st.crypto.is_none() && st.ecdh_private_key.is_some() && st.last_message.is_some());
                assert!(st.failed_retries == retries);
            }
        }
    }
    std::mem::forget(st);
    witness!();
}

/// One second of a handshake object: retransmission while fewer than 120 retries have failed (the last datagram,
/// byte-identical), then give up (fatal error, stage CLOSING); the initiator lingers close_time seconds after success
/// and then closes; a closing object does nothing.
fn every_second_step(stage: u8, has_last: bool) {
    let retries: usize = kani::any();
    let close_time: usize = kani::any();
    let last: [u8; 6] = kani::any();
    kani::assume(retries <= MAX_FAILED_RETRIES);
    let mut st = mk_state(mk_algos(2, false, &[1.0, 2.0, 3.0], false));
    st.next_stage = stage;
    st.failed_retries = retries;
    st.close_time = close_time;
    st.last_message = if has_last { Some(vec![last[0], last[1], last[2], last[3], last[4], last[5]]) } else { None };
    let mut out = MsgBuffer::new(100);
    let res = crate::vh_common::okf(st.every_second(&mut out));
    if stage == WAITING_TO_CLOSE {
        assert!(res.is_some() && out.is_empty());
        if close_time == 0 {
            assert!(st.next_stage == CLOSING);
        } else {
            assert!(st.next_stage == WAITING_TO_CLOSE && st.close_time == close_time - 1);
        }
        assert!(st.failed_retries == retries);
    } else if stage == CLOSING {
        assert!(res.is_some() && out.is_empty() && st.next_stage == CLOSING && st.failed_retries == retries);
    } else if retries < MAX_FAILED_RETRIES {
        assert!(res.is_some() && st.next_stage == stage && st.failed_retries == retries + 1);
        if has_last {
            assert!(out.len() == 6);
            let m = out.message();
            let mut i = 0;
            while i < 6 {
                assert!(m[i] == last[i]);
                i += 1;
            }
        } else {
            assert!(out.is_empty());
        }
    } else {
        assert!(res.is_none() && st.next_stage == CLOSING && out.is_empty());
    }
    std::mem::forget(st);
    witness!();
}
macro_rules! es_inst {
    ($($name:ident = ($st:expr, $hl:expr)),*) => {$(
        #[cfg_attr(kani, kani::proof, kani::unwind(34))]
        pub fn $name() {
            every_second_step($st, $hl)
        }
    )*};
}
es_inst!(c05_every_second_ping_nolast = (STAGE_PING, false), c05_every_second_pong_last = (STAGE_PONG, true),
         c05_every_second_peng_last = (STAGE_PENG, true), c05_every_second_waiting = (WAITING_TO_CLOSE, true),
         c05_every_second_closing = (CLOSING, false));

/// ... and in every later stage of a handshake object too (awaiting pong, awaiting peng, lingering, closing): a
/// verified ping carrying a salted hash of the OWN node id is refused with the fatal self-connection error, without a
/// reply and without touching the object. (A node that dials two of its own addresses meets itself in these stages.)
fn self_ping_refused_in_stage(stage: u8) {
    let node_id: NodeId = kani::any();
    let salt2: [u8; 4] = kani::any();
    let kp = Ed25519KeyPair::from_seed_unchecked(&[7u8; 32]).unwrap();
    let tk: VArc<[Ed25519PublicKey]> = VArc::new([[0u8; 32]]);
    let mut st: InitState<NoPayload> = InitState::new(node_id, NoPayload, VArc::new(kp), tk, mk_algos(2, false, &[1.0, 2.0, 3.0], false));
    st.next_stage = stage;
    st.last_message = Some(vec![9, 9, 9]);
    if stage == STAGE_PONG {
        let (k, _) = st.create_ecdh_keypair();
        st.ecdh_private_key = Some(k);
    }
    let mut h = [0u8; SALTED_NODE_ID_HASH_LEN];
    h[0..4].copy_from_slice(&salt2);
    h[4..].copy_from_slice(&node_id);
    let d = digest::digest(&digest::SHA256, &h);
    h[4..].copy_from_slice(&d.as_ref()[..16]);
    unsafe {
        RF_KIND = 1;
        RF_HASH = h;
        RF_SHAPE = 2;
        SENT_STAGE = 0;
    }
    let mut out = MsgBuffer::new(100);
    out.set_length(40);
    let res = st.handle_init(&mut out);
    match res {
        Ok(_) => assert!(false, "a node continued a handshake with itself"),
        Err(e) => {
            assert!(matches!(e, Error::CryptoInitFatal(_)));
            std::mem::forget(e);
        }
    }
    assert!(st.crypto.is_none() && st.next_stage == stage && unsafe { SENT_STAGE } == 0);
    assert!(st.last_message.is_some() && st.ecdh_private_key.is_some() == (stage == STAGE_PONG));
    std::mem::forget(st);
    witness!();
}
macro_rules! selfping_inst {
    ($($name:ident = $st:expr),*) => {$(
        #[cfg_attr(kani, kani::proof, kani::unwind(34), kani::stub(crate::crypto::init::InitMsg::read_from, read_from_verified),
                   kani::stub(crate::crypto::init::InitState::send_message, send_message_recorder))]
        pub fn $name() {
            self_ping_refused_in_stage($st)
        }
    )*};
}
selfping_inst!(c14_self_ping_refused_awaiting_pong = STAGE_PONG, c14_self_ping_refused_awaiting_peng = STAGE_PENG,
               c14_self_ping_refused_lingering = WAITING_TO_CLOSE, c14_self_ping_refused_closing = CLOSING);


/// C05, recovery mechanism: a verified ping of a FOREIGN node that arrives late or as a duplicate - the object is no
/// longer waiting for a ping - is answered by repeating the stored last datagram byte-identically (the responder's pong
/// while it awaits the peng; the initiator's peng while it lingers after success), without building a new message,
/// without touching stage, keys or the stored datagram; a closing object stays silent. This is what lets the peer
/// finish after ITS copy of the answer was lost.
fn late_ping_in_stage(stage: u8) {
    let node_id: NodeId = kani::any();
    let last: [u8; 3] = kani::any();
    let kp = Ed25519KeyPair::from_seed_unchecked(&[7u8; 32]).unwrap();
    let tk: VArc<[Ed25519PublicKey]> = VArc::new([[0u8; 32]]);
    let mut st: InitState<NoPayload> = InitState::new(node_id, NoPayload, VArc::new(kp), tk, mk_algos(2, false, &[1.0, 2.0, 3.0], false));
    st.next_stage = stage;
    st.last_message = Some(vec![last[0], last[1], last[2]]);
    let h: [u8; SALTED_NODE_ID_HASH_LEN] = kani::any();
    // a foreign node: neither the own salted hash nor a salted hash of the own node id
    kani::assume(h != st.salted_node_id_hash);
    kani::assume(!st.check_salted_node_id_hash(&h, node_id));
    unsafe {
        RF_KIND = 1;
        RF_HASH = h;
        RF_SHAPE = 2;
        SENT_STAGE = 0;
    }
    let mut out = MsgBuffer::new(100);
    out.set_length(40);
    let res = st.handle_init(&mut out);
    match res {
        Ok(r) => {
            assert!(matches!(r, InitResult::Continue));
            std::mem::forget(r);
        }
        Err(e) => {
            std::mem::forget(e);
            assert!(false, "a late ping ended the handshake object");
        }
    }
    if stage == CLOSING {
        assert!(out.is_empty());
    } else {
        assert!(out.len() == 3);
        let m = out.message();
        assert!(m[0] == last[0] && m[1] == last[1] && m[2] == last[2]);
    }
    assert!(unsafe { SENT_STAGE } == 0 && st.next_stage == stage && st.crypto.is_none());
    match &st.last_message {
        Some(v) => assert!(v.len() == 3 && v[0] == last[0] && v[1] == last[1] && v[2] == last[2]),
        None => assert!(false),
    }
    std::mem::forget(st);
    witness!();
}
macro_rules! lateping_inst {
    ($($name:ident = $st:expr),*) => {$(
        #[cfg_attr(kani, kani::proof, kani::unwind(34), kani::stub(crate::crypto::init::InitMsg::read_from, read_from_verified),
                   kani::stub(crate::crypto::init::InitState::send_message, send_message_recorder))]
        pub fn $name() {
            late_ping_in_stage($st)
        }
    )*};
}
lateping_inst!(c05_late_ping_awaiting_peng_repeats_pong = STAGE_PENG, c05_late_ping_lingering_repeats_peng = WAITING_TO_CLOSE,
               c05_late_ping_closing_is_silent = CLOSING);

// ============================================================================== C06 / C16: the cipher list on the wire
include!(concat!(env!("VH_GEN"), "/extracted_init.rs"));

fn algo_by_id(id: u8) -> &'static Algorithm {
    match id {
        1 => &AES_128_GCM,
        2 => &AES_256_GCM,
        _ => &CHACHA20_POLY1305,
    }
}
/// The cipher list a node offers reaches its peer exactly as offered: the writer arm of InitMsg::write_to followed by
/// the reader arm of InitMsg::read_from (both extracted) returns the same ciphers in the same order with bit-identical
/// speeds and the same allow-unencrypted flag - for every list of `n` ciphers in ANY order (repetitions included) and
/// any speed bit patterns. Both ends run select_algorithm over (own list, received list): if a list is altered in
/// transit by the codec, the two ends no longer evaluate the same function arguments (C06).
fn algorithms_part_roundtrip(n: usize, allow: bool) {
    let ids: [u8; 3] = kani::any();
    let bits: [u32; 3] = kani::any();
    let mut speeds: SmallVec<[(&'static Algorithm, f32); 3]> = SmallVec::new();
    let mut i = 0;
    while i < n {
        kani::assume(ids[i] >= 1 && ids[i] <= 3);
        speeds.push((algo_by_id(ids[i]), f32::from_bits(bits[i])));
        i += 1;
    }
    let a = Algorithms { algorithm_speeds: speeds, allow_unencrypted: allow };
    let mut buf = [0u8; 24];
    let written = match InitMsg::x_write_algorithms_part(&a, &mut buf) {
        Ok(w) => w,
        Err(e) => {
            std::mem::forget(e);
            assert!(false, "writer failed");
            return;
        }
    };
    let body = n * 5 + if allow { 5 } else { 0 };
    assert!(written == 3 + body);
    assert!(buf[0] == InitMsg::PART_ALGORITHMS && buf[1] == 0 && buf[2] as usize == body);
    let got = match InitMsg::x_read_algorithms_part(&buf[3..3 + body], body) {
        Ok(g) => g,
        Err(e) => {
            std::mem::forget(e);
            assert!(false, "reader failed on the writer's output");
            return;
        }
    };
    assert!(got.is_some());
    let g = got.unwrap();
    assert!(g.allow_unencrypted == allow);
    assert!(g.algorithm_speeds.len() == n);
    let mut i = 0;
    while i < n {
        let (al, sp) = g.algorithm_speeds[i];
        assert!(al == algo_by_id(ids[i]));
        assert!(sp.to_bits() == bits[i]);
        i += 1;
    }
    vcover!(n >= 2 && ids[0] > ids[1], "descending_list");
    vcover!(n >= 2 && ids[0] == ids[1], "repeated_cipher");
    std::mem::forget(g);
    std::mem::forget(a);
    witness!();
}
macro_rules! algopart_inst {
    ($($name:ident = ($n:expr, $allow:expr)),*) => {$(
        #[cfg_attr(kani, kani::proof, kani::unwind(8))]
        pub fn $name() {
            algorithms_part_roundtrip($n, $allow)
        }
    )*};
}
algopart_inst!(c06_cipher_list_on_the_wire_n0_t = (0, true), c06_cipher_list_on_the_wire_n1_f = (1, false),
               c06_cipher_list_on_the_wire_n2_f = (2, false), c06_cipher_list_on_the_wire_n2_t = (2, true),
               c06_cipher_list_on_the_wire_n3_f = (3, false), c06_cipher_list_on_the_wire_n3_t = (3, true));

/// C16 (totality of the same reader arm): on ARBITRARY bytes - `have` bytes present, the length field claiming `claimed` -
/// it ends with a list of at most claimed/5 ciphers or the parse error, never a panic.
fn algorithms_part_total(have: usize, claimed: usize) {
    let bytes: [u8; 16] = kani::any();
    match InitMsg::x_read_algorithms_part(&bytes[..have], claimed) {
        Ok(g) => {
            assert!(have >= (claimed / 5) * 5);
            assert!(g.is_some());
            let g = g.unwrap();
            assert!(g.algorithm_speeds.len() <= claimed / 5);
            std::mem::forget(g);
        }
        Err(e) => {
            assert!(have < (claimed / 5) * 5);
            assert!(matches!(e, Error::Parse(_)));
            std::mem::forget(e);
        }
    }
    witness!();
}
#[cfg_attr(kani, kani::proof, kani::unwind(8))]
pub fn c16_cipher_list_decode_total_15_of_15() {
    algorithms_part_total(15, 15)
}
#[cfg_attr(kani, kani::proof, kani::unwind(8))]
pub fn c16_cipher_list_decode_total_12_of_14() {
    algorithms_part_total(12, 14)
}
#[cfg_attr(kani, kani::proof, kani::unwind(8))]
pub fn c16_cipher_list_decode_total_7_of_10() {
    algorithms_part_total(7, 10)
}

/// C08 / C16 (the last step of the handshake parser, extracted: the signature read): whatever the length byte says (0..=255)
/// and however many bytes follow, it ends with the signature of that length or the parse error - never a panic.
fn signature_part_total(total: usize, start: usize) {
    let bytes: [u8; 16] = kani::any();
    match InitMsg::x_read_signature_part(&bytes[..total], start) {
        Ok((pos, n)) => {
            assert!(pos == start && start < total);
            assert!(n == bytes[start] as usize && start + 1 + n <= total);
        }
        Err(e) => {
            assert!(start >= total || start + 1 + bytes[start] as usize > total);
            assert!(matches!(e, Error::Parse(_)));
            std::mem::forget(e);
        }
    }
    vcover!(start < total && bytes[start] > 64, "length_byte_above_64");
    witness!();
}
#[cfg_attr(kani, kani::proof, kani::unwind(258))]
pub fn c08_signature_read_total_12_at_2() {
    signature_part_total(12, 2)
}
#[cfg_attr(kani, kani::proof, kani::unwind(258))]
pub fn c08_signature_read_total_16_at_0() {
    signature_part_total(16, 0)
}
#[cfg_attr(kani, kani::proof, kani::unwind(258))]
pub fn c08_signature_read_total_5_at_5() {
    signature_part_total(5, 5)
}

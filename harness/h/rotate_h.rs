// harnesses: rotate

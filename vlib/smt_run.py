"""MIR -> SMT-LIB engine front (see vlib/mir2smt.py). Filled in by the C15/C20/C17 obligations."""


def setup():
    return "n/a"


def run_obligation(ob, timeout, logdir):
    return {"verdict": "INCONCLUSIVE", "reason": "smt engine not built yet", "harness": ob["name"]}


def replay(pid, ob, res):
    return None, None, {}


def replay_file(pid, path):
    return 0

// harnesses over /repo/src/payload.rs  (C19, C13-H1)

/// independent reference dissector for Ethernet frames: (src, dst, addr_len) or None
fn ref_frame(d: &[u8]) -> Option<([u8; 8], [u8; 8], u8, bool)> {
    if d.len() < 14 {
        return None;
    }
    let mut src = [0u8; 8];
    let mut dst = [0u8; 8];
    if d[12] == 0x81 && d[13] == 0x00 {
        if d.len() < 16 {
            return None;
        }
        let hi = d[14] & 0x0f;
        let lo = d[15];
        src[0] = hi;
        src[1] = lo;
        dst[0] = hi;
        dst[1] = lo;
        let mut i = 0;
        while i < 6 {
            src[2 + i] = d[6 + i];
            dst[2 + i] = d[i];
            i += 1;
        }
        Some((src, dst, 8, hi == 0 && lo == 0))
    } else {
        let mut i = 0;
        while i < 6 {
            src[i] = d[6 + i];
            dst[i] = d[i];
            i += 1;
        }
        Some((src, dst, 6, false))
    }
}

fn same_prefix(a: &[u8; 16], b: &[u8; 8], n: usize) -> bool {
    let mut i = 0;
    while i < n {
        if a[i] != b[i] {
            return false;
        }
        i += 1;
    }
    true
}

/// C19-H1: Frame::parse is exact and total on every byte string of length <= 24 (it reads at most 16 bytes).
/// For VLAN id 0 both the tagged (8-byte, id 0) and the untagged (6-byte) form are accepted here: the folding
/// itself is the subject of C13.
#[cfg_attr(kani, kani::proof, kani::unwind(10))]
pub fn c19_frame_exact() {
    let data: [u8; 24] = kani::any();
    let len: usize = kani::any();
    kani::assume(len <= 24);
    let res = Frame::parse(&data[..len]);
    match ref_frame(&data[..len]) {
        None => assert!(res.is_err()),
        Some((rs, rd, rl, vlan0)) => {
            assert!(res.is_ok());
            let (s, d) = res.unwrap();
            if vlan0 && s.len == 6 {
                // folded form: plain MACs
                assert!(d.len == 6);
                let mut i = 0;
                while i < 6 {
                    assert!(s.data[i] == rs[2 + i] && d.data[i] == rd[2 + i]);
                    i += 1;
                }
            } else {
                assert!(s.len == rl && d.len == rl);
                assert!(same_prefix(&s.data, &rs, rl as usize));
                assert!(same_prefix(&d.data, &rd, rl as usize));
            }
        }
    }
    vcover!(len >= 16 && data[12] == 0x81 && data[13] == 0, "tagged");
    vcover!(len == 15 && data[12] == 0x81 && data[13] == 0, "tagged_truncated");
    vcover!(len == 14 && data[12] != 0x81, "minimal_untagged");
    witness!();
}

/// C13-H1: VLAN normalisation. Behind ethertype 0x8100 the address is the 12-bit VLAN id + MAC; the PCP/DEI nibble
/// never influences it; priority-tagged frames (VLAN id 0) count as untagged: plain 6-byte MAC addresses, equal to
/// what the same frame without the tag yields; nested tags are ignored.
#[cfg_attr(kani, kani::proof, kani::unwind(10))]
pub fn c13_vlan_normalisation() {
    let data: [u8; 20] = kani::any();
    let nibble: u8 = kani::any();
    kani::assume(data[12] == 0x81 && data[13] == 0x00);
    let (s, d) = Frame::parse(&data).unwrap();
    let vid = (((data[14] & 0x0f) as u16) << 8) | data[15] as u16;
    // the same frame with another PCP/DEI nibble
    let mut other = data;
    other[14] = (data[14] & 0x0f) | (nibble << 4);
    let (s2, d2) = Frame::parse(&other).unwrap();
    assert!(s == s2 && d == d2);
    // the same frame without the tag
    let mut untagged = [0u8; 16];
    untagged[..12].copy_from_slice(&data[..12]);
    untagged[12] = 0x08;
    untagged[13] = 0x00;
    let (us, ud) = Frame::parse(&untagged).unwrap();
    assert!(us.len == 6 && ud.len == 6);
    if vid == 0 {
        assert!(s.len == 6 && d.len == 6);
        assert!(s == us && d == ud);
    } else {
        assert!(s.len == 8 && d.len == 8);
        assert!(s.data[0] == (vid >> 8) as u8 && s.data[1] == (vid & 0xff) as u8);
        assert!(d.data[0] == (vid >> 8) as u8 && d.data[1] == (vid & 0xff) as u8);
        let mut i = 0;
        while i < 6 {
            assert!(s.data[2 + i] == data[6 + i] && d.data[2 + i] == data[i]);
            i += 1;
        }
        assert!(s != us);
    }
    vcover!(vid == 0 && (data[14] >> 4) != 0, "priority_tagged");
    vcover!(vid == 0xfff, "vid_max");
    vcover!(data[16] == 0x81 && data[17] == 0x00, "nested_tag");
    witness!();
}

/// C19-H2: Packet::parse is exact and total on every byte string of length <= 64 (it reads at most 40 bytes)
#[cfg_attr(kani, kani::proof, kani::unwind(18))]
pub fn c19_packet_exact() {
    let data: [u8; 64] = kani::any();
    let len: usize = kani::any();
    kani::assume(len <= 64);
    let res = Packet::parse(&data[..len]);
    let v = if len > 0 { data[0] >> 4 } else { 0 };
    if len == 0 || (v != 4 && v != 6) || (v == 4 && len < 20) || (v == 6 && len < 40) {
        assert!(res.is_err());
    } else {
        assert!(res.is_ok());
        let (s, d) = res.unwrap();
        if v == 4 {
            assert!(s.len == 4 && d.len == 4);
            let mut i = 0;
            while i < 4 {
                assert!(s.data[i] == data[12 + i] && d.data[i] == data[16 + i]);
                i += 1;
            }
        } else {
            assert!(s.len == 16 && d.len == 16);
            let mut i = 0;
            while i < 16 {
                assert!(s.data[i] == data[8 + i] && d.data[i] == data[24 + i]);
                i += 1;
            }
        }
    }
    vcover!(len == 20 && v == 4, "ipv4_minimal");
    vcover!(len == 19 && v == 4, "ipv4_truncated");
    vcover!(len == 40 && v == 6, "ipv6_minimal");
    vcover!(len == 39 && v == 6, "ipv6_truncated");
    witness!();
}

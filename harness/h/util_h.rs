// harnesses: util

// harnesses over extracted items

// shared helpers for harness bodies (compiled under cfg(kani) and cfg(vh_playback))

/// reachability witness: must come back SATISFIED, otherwise the harness is vacuous (DESIGN 2.4a)
#[cfg(kani)]
#[macro_export]
macro_rules! witness {
    () => {
        kani::cover!(true, "VH_WITNESS")
    };
}
#[cfg(not(kani))]
#[macro_export]
macro_rules! witness {
    () => {};
}
/// additional named cover points (non-vacuity of an interesting branch)
#[cfg(kani)]
#[macro_export]
macro_rules! vcover {
    ($c:expr, $m:expr) => {
        kani::cover!($c, $m)
    };
}
#[cfg(not(kani))]
#[macro_export]
macro_rules! vcover {
    ($c:expr, $m:expr) => {
        let _ = $c;
    };
}

/// big-endian value of a 12-byte nonce
pub fn nonce_val(b: &[u8; 12]) -> u128 {
    let mut a = [0u8; 16];
    a[4..].copy_from_slice(b);
    u128::from_be_bytes(a)
}

/// Result -> Option without running the drop glue of `Error` (its io::Error variants make CBMC explore the whole
/// boxed-dyn-Error destructor; irrelevant to every property and measured to turn 1 s harnesses into timeouts)
pub fn okf<T>(r: Result<T, crate::error::Error>) -> Option<T> {
    match r {
        Ok(v) => Some(v),
        Err(e) => {
            std::mem::forget(e);
            None
        }
    }
}

// harnesses over /repo/src/types.rs  (C11-H1, C16-H1)
use std::io::Cursor;
use crate::vh_common::okf;

/// C11-H1: Range::matches == (lengths equal and number of common leading bits >= prefix length), for every base,
/// address, length 0..=16 and prefix length 0..=255 (over-long prefixes included). Complete: no bound.
#[cfg_attr(kani, kani::proof, kani::unwind(130))]
pub fn c11_matches_is_prefix_match() {
    let base: [u8; 16] = kani::any();
    let addr: [u8; 16] = kani::any();
    let blen: u8 = kani::any();
    let alen: u8 = kani::any();
    let prefix_len: u8 = kani::any();
    kani::assume(blen <= 16 && alen <= 16);
    let r = Range { base: Address { data: base, len: blen }, prefix_len };
    let got = r.matches(Address { data: addr, len: alen });
    // bit-by-bit reference
    let expect = if blen != alen {
        false
    } else {
        let nbits = (alen as usize) * 8;
        let mut common = 0usize;
        let mut i = 0;
        while i < nbits {
            let ba = (addr[i / 8] >> (7 - (i % 8))) & 1;
            let bb = (base[i / 8] >> (7 - (i % 8))) & 1;
            if ba != bb {
                break;
            }
            common += 1;
            i += 1;
        }
        common >= prefix_len as usize
    };
    assert!(got == expect);
    vcover!(got && prefix_len == 128, "full_ipv6_match");
    vcover!(!got && alen == blen && prefix_len > 0, "mismatch");
    vcover!(got && prefix_len == 0, "default_route");
    witness!();
}

/// C16-H1a: Range::write_to -> Range::read_from is the identity for the given address length
fn range_roundtrip(len: u8) {
    let data: [u8; 16] = kani::any();
    let prefix_len: u8 = kani::any();
    let r = Range { base: Address { data, len }, prefix_len };
    let mut buf = [0u8; 20];
    {
        let mut c = Cursor::new(&mut buf[..]);
        r.write_to(&mut c);
        assert!(c.position() as usize == len as usize + 2);
    }
    assert!(buf[0] == len);
    let back = okf(Range::read_from(Cursor::new(&buf[..len as usize + 2])));
    assert!(back.is_some());
    let back = back.unwrap();
    assert!(back.base.len == len && back.prefix_len == prefix_len);
    let mut i = 0;
    while i < len as usize {
        assert!(back.base.data[i] == data[i]);
        i += 1;
    }
    // bytes past the length are normalised to zero by the decoder
    while i < 16 {
        assert!(back.base.data[i] == 0);
        i += 1;
    }
    witness!();
}
macro_rules! rr_inst {
    ($($name:ident = $len:expr),*) => {$(
        #[cfg_attr(kani, kani::proof, kani::unwind(18))]
        pub fn $name() {
            range_roundtrip($len)
        }
    )*};
}
rr_inst!(c16_range_roundtrip_len00 = 0, c16_range_roundtrip_len01 = 1, c16_range_roundtrip_len04 = 4,
         c16_range_roundtrip_len06 = 6, c16_range_roundtrip_len08 = 8, c16_range_roundtrip_len15 = 15,
         c16_range_roundtrip_len16 = 16);

/// C16-H1b: Range::read_from on arbitrary bytes of the given total length: never panics; accepts iff the length byte
/// is <= 16 and length byte + 2 bytes are present; on success the value reflects exactly those bytes
fn range_decode_total(total: usize) {
    let bytes: [u8; 20] = kani::any();
    let res = okf(Range::read_from(Cursor::new(&bytes[..total])));
    let ok = total >= 1 && bytes[0] <= 16 && total >= bytes[0] as usize + 2;
    assert!(res.is_some() == ok);
    if let Some(r) = res {
        assert!(r.base.len == bytes[0]);
        assert!(r.prefix_len == bytes[1 + bytes[0] as usize]);
        let mut i = 0;
        while i < 16 {
            if i < r.base.len as usize {
                assert!(r.base.data[i] == bytes[1 + i]);
            } else {
                assert!(r.base.data[i] == 0);
            }
            i += 1;
        }
    }
    witness!();
}
macro_rules! rd_inst {
    ($($name:ident = $len:expr),*) => {$(
        #[cfg_attr(kani, kani::proof, kani::unwind(18))]
        pub fn $name() {
            range_decode_total($len)
        }
    )*};
}
rd_inst!(c16_range_decode_total00 = 0, c16_range_decode_total01 = 1, c16_range_decode_total02 = 2,
         c16_range_decode_total06 = 6, c16_range_decode_total10 = 10, c16_range_decode_total17 = 17,
         c16_range_decode_total18 = 18, c16_range_decode_total20 = 20);

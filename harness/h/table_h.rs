// harnesses: table
